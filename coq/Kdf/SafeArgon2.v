(* C05 for Argon2: no block index of argon2crypto's memory-filling code is ever out of range.
   The model Kdf/Argon2.v reads and writes the block matrix with total functions (getb: default block, setb: no-op out
   of range) -- exactly where the Go code would panic with "index out of range".  Here every such access is a CHECKED
   operation returning None outside the matrix, and the checked derivation is proved to succeed, and to equal the
   unchecked one, for EVERY password, salt, variant, version, time cost, lane count 1..255 and memory cost below 2^32:
   initBlocks (two blocks per lane), processSegment (the block written, the previous block, the reference block chosen
   by indexAlpha from data-dependent or data-independent pseudo-random words), and extractKey (last block of each lane).
   The reference index needs no assumption about the 64-bit word it is computed from (indexAlpha_mod). *)
Require Import GC.Base.Bytes GC.Kdf.Argon2 GC.Kdf.Argon2Index.
Arguments Z.add : simpl never. Arguments Z.sub : simpl never. Arguments Z.mul : simpl never.
Arguments Z.of_nat : simpl never. Arguments Z.to_nat : simpl never.

(* ------------------------------------------------------------------------------------------------ *)
(* 1. the reference index depends on the pseudo-random word only through its low 64 bits            *)
Lemma indexAlpha_mod rand lanes segments threads n slice lane index :
  indexAlpha rand lanes segments threads n slice lane index
  = indexAlpha (rand mod 2 ^ 64) lanes segments threads n slice lane index.
Proof.
  unfold indexAlpha, phi.
  assert (E1 : Z.land (rand mod 2 ^ 64) 4294967295 = Z.land rand 4294967295).
  { rewrite !land_mask32. change (2 ^ 64) with (2 ^ 32 * 2 ^ 32).
    rewrite Z.rem_mul_r by lia. rewrite (Z.mul_comm (2 ^ 32) ((rand / 2 ^ 32) mod 2 ^ 32)), Z.mod_add by lia.
    apply Z.mod_mod. lia. }
  assert (E2 : u32 (Z.shiftr (rand mod 2 ^ 64) 32) = u32 (Z.shiftr rand 32)).
  { rewrite !shiftr32. unfold u32. change (2 ^ 64) with (2 ^ 32 * 2 ^ 32).
    rewrite Z.rem_mul_r by lia.
    rewrite (Z.mul_comm (2 ^ 32) ((rand / 2 ^ 32) mod 2 ^ 32)), Z.div_add by lia.
    rewrite (Z.div_small (rand mod 2 ^ 32)) by (apply Z.mod_pos_bound; lia).
    rewrite Z.add_0_l. apply Z.mod_mod. lia. }
  rewrite E1, E2. reflexivity.
Qed.

Lemma index_in_memory_any rand lanes segments threads n slice lane index :
  2 <= segments -> lanes = 4 * segments -> 1 <= threads <= 255 -> threads * lanes <= 2 ^ 32 - 1 ->
  0 <= n -> 0 <= slice < 4 -> 0 <= lane < threads -> 0 <= index < segments ->
  (n = 0 -> slice = 0 -> 2 <= index) ->
  0 <= indexAlpha rand lanes segments threads n slice lane index < threads * lanes.
Proof.
  intros. rewrite indexAlpha_mod. apply index_in_memory.
  unfold index_args_ok. repeat split; try assumption; try lia; apply Z.mod_pos_bound; lia.
Qed.

(* ------------------------------------------------------------------------------------------------ *)
(* 2. checked block accesses                                                                         *)
Definition in_mem (B : mem) (i : Z) : bool := (0 <=? i) && (i <? Z.of_nat (length B)).
Definition getb_chk (B : mem) (i : Z) : option (list Z) := if in_mem B i then Some (getb B i) else None.
Definition setb_chk (B : mem) (i : Z) (v : list Z) : option mem :=
  if in_mem B i then Some (setb B (Z.to_nat i) v) else None.

Lemma setb_length : forall B i v, length (setb B i v) = length B.
Proof. induction B as [|x r IH]; intros [|i] v; cbn [setb length]; try reflexivity. rewrite IH. reflexivity. Qed.

Lemma in_mem_true B i : 0 <= i < Z.of_nat (length B) -> in_mem B i = true.
Proof. intros H. unfold in_mem. apply andb_true_iff. split; [apply Z.leb_le | apply Z.ltb_lt]; lia. Qed.

(* ------------------------------------------------------------------------------------------------ *)
(* 3. the segment loop with checked accesses                                                         *)
Fixpoint segment_loop_chk (k : nat) (B : mem) (mode version time memory lanes segments threads n slice lane : Z)
         (indep : bool) (inb addresses : list Z) (index offset : Z) : option mem :=
  match k with
  | O => Some B
  | S k' =>
    let prev := prevOf lanes slice index offset in
    let '(inb', addresses') :=
      if indep && (index mod 128 =? 0) then next_addresses inb else (inb, addresses) in
    match getb_chk B prev with
    | None => None
    | Some bprev =>
      let random := if indep then getw addresses' (Z.to_nat (index mod 128)) else getw bprev 0 in
      let newOffset := indexAlpha random lanes segments threads n slice lane index in
      match getb_chk B offset, getb_chk B newOffset with
      | Some bcur, Some bref =>
        match setb_chk B offset (process_block bcur bprev bref (negb (version =? 16))) with
        | Some B' => segment_loop_chk k' B' mode version time memory lanes segments threads n slice lane
                                      indep inb' addresses' (index + 1) (u32 (offset + 1))
        | None => None
        end
      | _, _ => None
      end
    end
  end.

Section Params.
Variables lanes segments threads : Z.
Hypothesis Hseg : 2 <= segments.
Hypothesis Hl : lanes = 4 * segments.
Hypothesis Ht : 1 <= threads <= 255.
Hypothesis Hmem : threads * lanes <= 2 ^ 32 - 1.

Lemma segment_loop_chk_ok : forall k B mode version time memory n slice lane indep inb addresses index,
  Z.of_nat (length B) = threads * lanes ->
  0 <= n -> 0 <= slice < 4 -> 0 <= lane < threads -> 0 <= index -> index + Z.of_nat k = segments ->
  (n = 0 -> slice = 0 -> 2 <= index) ->
  segment_loop_chk k B mode version time memory lanes segments threads n slice lane indep inb addresses index
                   (lane * lanes + slice * segments + index)
  = Some (segment_loop k B mode version time memory lanes segments threads n slice lane indep inb addresses index
                       (lane * lanes + slice * segments + index)).
Proof.
  induction k as [|k IH]; intros B mode version time memory n slice lane indep inb addresses index HB Hn Hs Hlane Hi0 Hik Hfirst.
  - reflexivity.
  - assert (Hi : 0 <= index < segments) by lia.
    destruct (offset_closed_form lanes segments threads slice lane index Hseg Hl ltac:(lia) Hmem Hs Hlane Hi) as (_ & Eo1 & Hoff).
    destruct (prev_in_own_lane lanes segments threads slice lane index Hseg Hl ltac:(lia) Hmem Hs Hlane Hi) as (Eprev & Hp & _).
    cbv zeta in Eprev.
    assert (Hprev : 0 <= prevOf lanes slice index (lane * lanes + slice * segments + index) < threads * lanes).
    { rewrite Eprev. apply lane_block_bound; lia. }
    rewrite segment_loop_unfold. cbn [segment_loop_chk]. cbv zeta.
    destruct (if indep && (index mod 128 =? 0) then next_addresses inb else (inb, addresses)) as [inb' addresses'].
    unfold getb_chk at 1. rewrite in_mem_true by (rewrite HB; exact Hprev).
    set (random := if indep then getw addresses' (Z.to_nat (index mod 128))
                   else getw (getb B (prevOf lanes slice index (lane * lanes + slice * segments + index))) 0).
    assert (Href : 0 <= indexAlpha random lanes segments threads n slice lane index < threads * lanes)
      by (apply index_in_memory_any; try assumption; lia).
    unfold getb_chk. rewrite !in_mem_true by (rewrite HB; assumption).
    unfold setb_chk. rewrite in_mem_true by (rewrite HB; exact Hoff).
    rewrite Eo1.
    replace (lane * lanes + slice * segments + index + 1) with (lane * lanes + slice * segments + (index + 1)) by lia.
    apply IH; try assumption; try lia.
    rewrite setb_length. exact HB.
Qed.
End Params.

(* ------------------------------------------------------------------------------------------------ *)
(* 4. processSegment, processBlocks, initBlocks, extractKey, Key with checked accesses               *)
Section A.
Variable B2 : Z -> bytes -> bytes.

Definition processSegment_chk (B : mem) (mode version time memory lanes segments threads n slice lane : Z) : option mem :=
  let indep := (mode =? Argon2i) || ((mode =? Argon2id) && (n =? 0) && (slice <? 2)) in
  let inb0 := if indep then [n; lane; slice; memory; time; mode] ++ repeat 0 122 else zero_block in
  let first := (n =? 0) && (slice =? 0) in
  let index0 := if first then 2 else 0 in
  let '(inb1, addr1) := if first && ((mode =? Argon2i) || (mode =? Argon2id))
                        then next_addresses inb0 else (inb0, zero_block) in
  let offset := u32 (u32 (lane * lanes) + u32 (slice * segments) + index0) in
  segment_loop_chk (Z.to_nat (segments - index0)) B mode version time memory lanes segments threads n slice lane
                   indep inb1 addr1 index0 offset.

Fixpoint fold_chk {A} (f : mem -> A -> option mem) (l : list A) (B : mem) : option mem :=
  match l with
  | [] => Some B
  | x :: r => match f B x with Some B' => fold_chk f r B' | None => None end
  end.

Lemma fold_chk_ok {A} (P : mem -> Prop) (f : mem -> A -> option mem) (g : mem -> A -> mem) (Q : A -> Prop) :
  (forall B x, P B -> Q x -> f B x = Some (g B x) /\ P (g B x)) ->
  forall l B, P B -> Forall Q l -> fold_chk f l B = Some (fold_left g l B) /\ P (fold_left g l B).
Proof.
  intros H. induction l as [|x r IH]; intros B HP HQ; cbn [fold_chk fold_left].
  - split; [reflexivity | exact HP].
  - inversion HQ as [|? ? Hx Hr]; subst. destruct (H B x HP Hx) as [E HP']. rewrite E. apply IH; assumption.
Qed.

Definition processBlocks_chk (B : mem) (time memory threads mode version : Z) : option mem :=
  let lanes := memory / threads in
  let segments := lanes / 4 in
  fold_chk (fun B n =>
    fold_chk (fun B slice =>
      fold_chk (fun B lane => processSegment_chk B mode version time memory lanes segments threads n slice lane)
               (map Z.of_nat (seq 0 (Z.to_nat threads))) B)
      [0; 1; 2; 3] B)
    (map Z.of_nat (seq 0 (Z.to_nat time))) B.

Definition initBlocks_chk (h0 : bytes) (memory threads : Z) : option mem :=
  fold_chk (fun B lane =>
              let j := u32 (lane * (memory / threads)) in
              let b0 := block_of_bytes (Hprime B2 1024 (h0 ++ le_bytes 4 0 ++ le_bytes 4 lane)) in
              let b1 := block_of_bytes (Hprime B2 1024 (h0 ++ le_bytes 4 1 ++ le_bytes 4 lane)) in
              match setb_chk B j b0 with
              | Some B1 => setb_chk B1 (j + 1) b1
              | None => None
              end)
           (map Z.of_nat (seq 0 (Z.to_nat threads))) (repeat zero_block (Z.to_nat memory)).

Definition extractKey_chk (B : mem) (memory threads keyLen : Z) : option bytes :=
  let lanes := memory / threads in
  match getb_chk B (memory - 1) with
  | None => None
  | Some lastb =>
    match fold_left (fun acc lane => match acc, getb_chk B (lane * lanes + lanes - 1) with
                                     | Some a, Some b => Some (xor_blocks a b)
                                     | _, _ => None
                                     end)
                    (map Z.of_nat (seq 0 (Z.to_nat (threads - 1)))) (Some lastb) with
    | Some last => Some (Hprime B2 keyLen (bytes_of_block last))
    | None => None
    end
  end.

Definition Key_chk (mode version : Z) (pw salt : bytes) (time memory threads keyLen : Z) : option bytes :=
  let h0 := initHash B2 pw salt time memory threads keyLen mode version in
  let memory1 := u32 (memory / (4 * threads) * (4 * threads)) in
  let memory2 := if memory1 <? 2 * 4 * threads then 2 * 4 * threads else memory1 in
  match initBlocks_chk h0 memory2 threads with
  | None => None
  | Some B =>
    match processBlocks_chk B time memory2 threads mode version with
    | None => None
    | Some B' => extractKey_chk B' memory2 threads keyLen
    end
  end.

(* ---- the geometry of the matrix ---- *)
Record geom (memory threads lanes segments : Z) : Prop := {
  g_seg : 2 <= segments;
  g_lanes : lanes = 4 * segments;
  g_thr : 1 <= threads <= 255;
  g_mem : threads * lanes <= 2 ^ 32 - 1;
  g_eq : memory = threads * lanes
}.

Lemma Forall_seqZ n : Forall (fun x => 0 <= x < Z.of_nat n) (map Z.of_nat (seq 0 n)).
Proof.
  apply Forall_forall. intros x Hx. apply in_map_iff in Hx. destruct Hx as (k & <- & Hk). apply in_seq in Hk. lia.
Qed.

Lemma processSegment_chk_ok memory threads lanes segments B mode version time n slice lane :
  geom memory threads lanes segments -> Z.of_nat (length B) = memory ->
  0 <= n -> 0 <= slice < 4 -> 0 <= lane < threads ->
  processSegment_chk B mode version time memory lanes segments threads n slice lane
  = Some (processSegment B mode version time memory lanes segments threads n slice lane)
  /\ Z.of_nat (length (processSegment B mode version time memory lanes segments threads n slice lane)) = memory.
Proof.
  intros G HB Hn Hs Hlane. destruct G as [Hseg Hl Ht Hmem Heq].
  assert (Hlen : forall k B0 md vs tm mm nn sl ln ind ib ad ix off,
            length (segment_loop k B0 md vs tm mm lanes segments threads nn sl ln ind ib ad ix off) = length B0).
  { induction k as [|k IH]; intros; [reflexivity|]. rewrite segment_loop_unfold. cbv zeta.
    destruct (if ind && (ix mod 128 =? 0) then next_addresses ib else (ib, ad)). rewrite IH. apply setb_length. }
  unfold processSegment_chk, processSegment.
  set (first := (n =? 0) && (slice =? 0)).
  set (index0 := if first then 2 else 0).
  destruct (if first && ((mode =? Argon2i) || (mode =? Argon2id)) then next_addresses _ else _) as [inb1 addr1].
  assert (Hi0' : 0 <= index0 <= segments) by (unfold index0, first; destruct ((n =? 0) && (slice =? 0)); lia).
  destruct (Z.eq_dec index0 segments) as [Efull|Hne].
  { (* a first segment of exactly two blocks: nothing to fill *)
    rewrite Efull, Z.sub_diag. cbn [Z.to_nat segment_loop_chk segment_loop]. split; [reflexivity | exact HB]. }
  assert (Hi0 : 0 <= index0 < segments) by lia.
  destruct (offset_closed_form lanes segments threads slice lane index0 Hseg Hl ltac:(lia) Hmem Hs Hlane Hi0) as (Eo & _ & _).
  rewrite Eo. split.
  - apply segment_loop_chk_ok; try assumption; try lia.
    all: try (rewrite HB; exact Heq).
    all: try (rewrite Z2Nat.id by lia; lia).
    all: try (intros En Esl; unfold index0, first; subst n slice; cbn; lia).
  - rewrite Hlen. exact HB.
Qed.

Lemma processBlocks_chk_ok memory threads lanes segments B time mode version :
  geom memory threads lanes segments -> Z.of_nat (length B) = memory -> lanes = memory / threads -> segments = lanes / 4 ->
  processBlocks_chk B time memory threads mode version = Some (processBlocks B time memory threads mode version)
  /\ Z.of_nat (length (processBlocks B time memory threads mode version)) = memory.
Proof.
  intros G HB El Es. unfold processBlocks_chk, processBlocks. rewrite <- El, <- Es.
  apply (fold_chk_ok (fun B => Z.of_nat (length B) = memory) _ _ (fun n => 0 <= n < Z.of_nat (Z.to_nat time))); [|exact HB|apply Forall_seqZ].
  intros B1 n HB1 Hn.
  apply (fold_chk_ok (fun B => Z.of_nat (length B) = memory) _ _ (fun s => 0 <= s < 4)); [|exact HB1|repeat constructor; lia].
  intros B2' slice HB2 Hs.
  apply (fold_chk_ok (fun B => Z.of_nat (length B) = memory) _ _ (fun l => 0 <= l < Z.of_nat (Z.to_nat threads))); [|exact HB2|apply Forall_seqZ].
  intros B3 lane HB3 Hlane.
  apply (processSegment_chk_ok memory threads lanes segments); try assumption; try lia.
  all: try (destruct G; rewrite Z2Nat.id in Hlane by lia; exact Hlane).
Qed.

Lemma initBlocks_chk_ok memory threads lanes segments h0 :
  geom memory threads lanes segments -> lanes = memory / threads ->
  initBlocks_chk h0 memory threads = Some (initBlocks B2 h0 memory threads)
  /\ Z.of_nat (length (initBlocks B2 h0 memory threads)) = memory.
Proof.
  intros G El. destruct G as [Hseg Hl Ht Hmem Heq]. unfold initBlocks_chk, initBlocks. rewrite <- El.
  assert (Hm0 : 0 <= memory) by nia.
  apply (fold_chk_ok (fun B => Z.of_nat (length B) = memory) _ _ (fun l => 0 <= l < Z.of_nat (Z.to_nat threads))); [| |apply Forall_seqZ].
  - intros B lane HB Hlane. rewrite Z2Nat.id in Hlane by lia.
    assert (Hb : 0 <= lane * lanes + 1 < threads * lanes).
    { replace (lane * lanes + 1) with (lane * lanes + 1) by lia. apply lane_block_bound; lia. }
    assert (Hll : 0 <= lane * lanes) by (apply Z.mul_nonneg_nonneg; lia).
    rewrite u32_small by lia.
    unfold setb_chk. rewrite in_mem_true by (rewrite HB; lia).
    rewrite in_mem_true by (rewrite setb_length, HB; lia).
    rewrite Z2Nat.inj_add by lia. split; [reflexivity|]. rewrite !setb_length. exact HB.
  - rewrite repeat_length. apply Z2Nat.id. exact Hm0.
Qed.

Lemma extractKey_chk_ok memory threads lanes segments B keyLen :
  geom memory threads lanes segments -> lanes = memory / threads -> Z.of_nat (length B) = memory ->
  extractKey_chk B memory threads keyLen = Some (extractKey B2 B memory threads keyLen).
Proof.
  intros G El HB. destruct G as [Hseg Hl Ht Hmem Heq]. unfold extractKey_chk, extractKey. rewrite <- El.
  assert (Hlanes : 8 <= lanes) by lia.
  assert (Hml : lanes <= memory) by nia.
  unfold getb_chk at 1. rewrite in_mem_true by (rewrite HB; lia).
  assert (F : forall l acc, Forall (fun x => 0 <= x < threads - 1) l ->
              fold_left (fun acc lane => match acc, getb_chk B (lane * lanes + lanes - 1) with
                                         | Some a, Some b => Some (xor_blocks a b) | _, _ => None end) l (Some acc)
              = Some (fold_left (fun acc lane => xor_blocks acc (getb B (lane * lanes + lanes - 1))) l acc)).
  { induction l as [|x r IH]; intros acc HF; cbn [fold_left]; [reflexivity|].
    apply Forall_cons_iff in HF. destruct HF as [Hx Hr].
    assert (Hb : 0 <= x * lanes + (lanes - 1) < threads * lanes) by (apply lane_block_bound; lia).
    assert (E : getb_chk B (x * lanes + lanes - 1) = Some (getb B (x * lanes + lanes - 1)))
      by (unfold getb_chk; rewrite in_mem_true by (rewrite HB; lia); reflexivity).
    cbv beta. rewrite E. apply IH. exact Hr. }
  rewrite F; [reflexivity|].
  eapply Forall_impl; [|apply Forall_seqZ]. cbv beta. intros a Ha. rewrite Z2Nat.id in Ha by lia. exact Ha.
Qed.

(* the geometry Key arrives at, for every memory cost and lane count *)
Lemma key_geometry memory threads :
  1 <= threads <= 255 -> 0 <= memory < 2 ^ 32 ->
  let memory1 := u32 (memory / (4 * threads) * (4 * threads)) in
  let memory2 := if memory1 <? 2 * 4 * threads then 2 * 4 * threads else memory1 in
  geom memory2 threads (memory2 / threads) (memory2 / threads / 4).
Proof.
  intros Ht Hm memory1 memory2.
  assert (Hq : 0 <= memory / (4 * threads)) by (apply Z.div_pos; lia).
  assert (Hle : memory / (4 * threads) * (4 * threads) <= memory) by (rewrite Z.mul_comm; apply Z.mul_div_le; lia).
  assert (E1 : memory1 = memory / (4 * threads) * (4 * threads)).
  { unfold memory1. apply u32_small. nia. }
  assert (Ex : exists q, 2 <= q /\ memory2 = q * (4 * threads) /\ memory2 <= 2 ^ 32 - 1).
  { unfold memory2. destruct (memory1 <? 2 * 4 * threads) eqn:E.
    - exists 2. split; [lia|]. split; lia.
    - apply Z.ltb_ge in E. exists (memory / (4 * threads)). rewrite E1 in *. split; [nia|]. split; [reflexivity|lia]. }
  destruct Ex as (q & Hq2 & Eq & Hmax).
  assert (El : memory2 / threads = 4 * q).
  { rewrite Eq. replace (q * (4 * threads)) with (4 * q * threads) by lia. apply Z.div_mul. lia. }
  assert (Es : memory2 / threads / 4 = q).
  { rewrite El. rewrite Z.mul_comm. apply Z.div_mul. lia. }
  assert (E4 : 4 * q / 4 = q) by (rewrite Z.mul_comm; apply Z.div_mul; lia).
  constructor; rewrite ?El, ?E4; try lia.
Qed.

Theorem Key_never_out_of_range : forall mode version pw salt time memory threads keyLen,
  1 <= threads <= 255 -> 0 <= memory < 2 ^ 32 ->
  Key_chk mode version pw salt time memory threads keyLen
  = Some (Key B2 mode version pw salt time memory threads keyLen).
Proof.
  intros mode version pw salt time memory threads keyLen Ht Hm.
  pose proof (key_geometry memory threads Ht Hm) as G. cbv zeta in G.
  unfold Key_chk, Key.
  set (memory2 := if u32 (memory / (4 * threads) * (4 * threads)) <? 2 * 4 * threads then 2 * 4 * threads
                  else u32 (memory / (4 * threads) * (4 * threads))) in *.
  destruct (initBlocks_chk_ok memory2 threads _ _ (initHash B2 pw salt time memory threads keyLen mode version) G eq_refl) as [E1 L1].
  rewrite E1.
  destruct (processBlocks_chk_ok memory2 threads _ _ _ time mode version G L1 eq_refl eq_refl) as [E2 L2].
  rewrite E2.
  apply (extractKey_chk_ok memory2 threads _ _ _ keyLen G eq_refl L2).
Qed.
End A.

Print Assumptions Key_never_out_of_range.
