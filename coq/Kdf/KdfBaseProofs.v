(* Generic facts about the KDF-model conventions of KdfBase.v: checked slices, permute, take_cyclic, i >>= 1. *)
Require Import GC.Base.Bytes GC.Kdf.KdfBase.

Arguments Z.add : simpl never.
Arguments Z.sub : simpl never.
Arguments Z.of_nat : simpl never.
Arguments Z.shiftr : simpl never.
Arguments Z.land : simpl never.

(* ---- checked slices ---- *)
Lemma sl_prefix : forall s i, 0 <= i <= lenZ s -> sl s 0 i = Some (firstn (Z.to_nat i) s).
Proof.
  intros s i Hi. unfold sl, lenZ in *.
  replace (0 <=? 0) with true by reflexivity.
  destruct (Z.leb_spec 0 i); try lia.
  destruct (Z.leb_spec i (Z.of_nat (length s))); try lia.
  cbn [andb]. rewrite Z.sub_0_r. reflexivity.
Qed.

Lemma sl_full : forall s i, i = lenZ s -> sl s 0 i = Some s.
Proof.
  intros s i ->. rewrite sl_prefix by (unfold lenZ; lia).
  unfold lenZ. rewrite Nat2Z.id, firstn_all. reflexivity.
Qed.

Lemma sl_some_length : forall s lo hi x, sl s lo hi = Some x -> length x = Z.to_nat (hi - lo).
Proof.
  intros s lo hi x. unfold sl.
  destruct (Z.leb_spec 0 lo); [|discriminate].
  destruct (Z.leb_spec lo hi); [|discriminate].
  destruct (Z.leb_spec hi (Z.of_nat (length s))); [|discriminate].
  cbn [andb]. intros E; inversion E; subst; clear E.
  rewrite firstn_length, skipn_length. lia.
Qed.

(* ---- permute ---- *)
Lemma permute_some : forall b t, Forall (fun j => 0 <= j < Z.of_nat (length b)) t ->
  exists k, permute b t = Some k /\ length k = length t.
Proof.
  intros b t Ht. induction Ht as [|j r Hj _ IH].
  - exists []. split; reflexivity.
  - destruct IH as (k & Ek & Lk). cbn [permute].
    destruct (Z.leb_spec 0 j); try lia. destruct (Z.ltb_spec j (Z.of_nat (length b))); try lia.
    cbn [andb]. rewrite Ek. eexists. split; [reflexivity|]. cbn [length]. now rewrite Lk.
Qed.

Lemma permute_some_length : forall b t k, permute b t = Some k -> length k = length t.
Proof.
  intros b t; induction t as [|j r IH]; intros k; cbn [permute].
  - intros E; inversion E; reflexivity.
  - destruct ((0 <=? j) && (j <? Z.of_nat (length b))); [|discriminate].
    destruct (permute b r) as [x|]; [|discriminate].
    intros E; inversion E; subst. cbn [length]. now rewrite (IH x eq_refl).
Qed.

(* ---- take_cyclic ---- *)
Lemma tcf_nil_cur : forall f b n, take_cyclic_from f b [] n = take_cyclic_from f b b n.
Proof. intros f b n. destruct n, b; reflexivity. Qed.

Lemma tcf_firstn : forall f b n cur, (n <= length cur)%nat -> take_cyclic_from f b cur n = firstn n cur.
Proof.
  intros f b n; induction n as [|n IH]; intros cur Hn; [reflexivity|].
  destruct cur as [|c r]; [cbn [length] in Hn; lia|].
  cbn [take_cyclic_from firstn]. f_equal. apply IH. cbn [length] in Hn; lia.
Qed.

Lemma tcf_app : forall f b cur n, (length cur <= n)%nat ->
  take_cyclic_from f b cur n = cur ++ take_cyclic_from f b b (n - length cur).
Proof.
  intros f b cur; induction cur as [|c r IH]; intros n Hn.
  - cbn [length app]. rewrite Nat.sub_0_r. apply tcf_nil_cur.
  - destruct n as [|n]; [cbn [length] in Hn; lia|].
    cbn [length] in *. cbn [take_cyclic_from app Nat.sub]. f_equal. apply IH. lia.
Qed.

Lemma tcf_length : forall f b n cur, b <> [] -> length (take_cyclic_from f b cur n) = n.
Proof.
  intros f b n; induction n as [|n IH]; intros cur Hb; [reflexivity|].
  cbn [take_cyclic_from]. destruct cur as [|c r].
  - destruct b as [|c r]; [congruence|]. cbn [length]. f_equal. now apply IH.
  - cbn [length]. f_equal. now apply IH.
Qed.

Lemma take_cyclic_length : forall b n, b <> [] -> length (take_cyclic b n) = n.
Proof. intros; unfold take_cyclic; now apply tcf_length. Qed.

Lemma take_cyclic_0 : forall b, take_cyclic b 0 = [].
Proof. reflexivity. Qed.

Lemma take_cyclic_firstn : forall b n, (n <= length b)%nat -> take_cyclic b n = firstn n b.
Proof. intros; unfold take_cyclic; now apply tcf_firstn. Qed.

Lemma take_cyclic_all : forall b, take_cyclic b (length b) = b.
Proof. intros. rewrite take_cyclic_firstn by lia. apply firstn_all. Qed.

Lemma take_cyclic_app : forall b n, (length b <= n)%nat -> take_cyclic b n = b ++ take_cyclic b (n - length b).
Proof. intros; unfold take_cyclic; now apply tcf_app. Qed.

(* the Z-indexed forms used by the loops: one full digest, or the final partial one *)
Lemma take_cyclic_step : forall b hs i, Z.of_nat (length b) = hs -> hs <= i ->
  take_cyclic b (Z.to_nat i) = b ++ take_cyclic b (Z.to_nat (i - hs)).
Proof.
  intros b hs i Hb Hi. rewrite take_cyclic_app by lia. do 2 f_equal. lia.
Qed.

Lemma take_cyclic_last : forall b hs i, Z.of_nat (length b) = hs -> 0 <= i <= hs ->
  sl b 0 i = Some (take_cyclic b (Z.to_nat i)).
Proof.
  intros b hs i Hb Hi. rewrite sl_prefix by (unfold lenZ; lia).
  rewrite take_cyclic_firstn by lia. reflexivity.
Qed.

(* ---- i >>= 1 ---- *)
Lemma shiftr1_lt : forall i, 0 < i -> 0 <= Z.shiftr i 1 < i.
Proof.
  intros i Hi. rewrite Z.shiftr_div_pow2 by lia. rewrite Z.pow_1_r. split.
  - apply Z.div_pos; lia.
  - apply Z.div_lt; lia.
Qed.

Lemma app_nil_r' : forall (a : bytes), a = a ++ [].
Proof. intros; now rewrite app_nil_r. Qed.
