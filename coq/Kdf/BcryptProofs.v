(* bcrypt encode/setup (block after block, 64 encryptions each, checked slices) = Provos-Mazieres
   (64 times ECB over the three blocks of the magic string), first 23 bytes. *)
Require Import GC.Base.Bytes GC.Kdf.KdfBase GC.Kdf.KdfBaseProofs GC.Schemes.Encoders GC.Kdf.Bcrypt.

Arguments Z.add : simpl never.
Arguments Z.sub : simpl never.
Arguments Z.of_nat : simpl never.

Lemma iter_S : forall A n (f : A -> A) x, iter (S n) f x = iter n f (f x).
Proof. reflexivity. Qed.

(* n times "every block once" = every block n times *)
Lemma iter_ecb : forall C (bf_encrypt : C -> bytes -> bytes) c n l,
  iter n (ecb C bf_encrypt c) l = map (iter n (bf_encrypt c)) l.
Proof.
  intros C bf_encrypt c n; induction n as [|n IH]; intros l.
  - cbn [iter]. now rewrite map_id.
  - rewrite iter_S, IH. unfold ecb. rewrite map_map. apply map_ext. intros; now rewrite iter_S.
Qed.

Lemma iter_length : forall C (bf_encrypt : C -> bytes -> bytes) c n b,
  (forall c b, length (bf_encrypt c b) = length b) -> length (iter n (bf_encrypt c) b) = length b.
Proof.
  intros C bf_encrypt c n; induction n as [|n IH]; intros b HL; [reflexivity|].
  rewrite iter_S, IH by assumption. apply HL.
Qed.

Lemma sl_magic_0 : sl magic 0 8 = Some (firstn 8 magic).  Proof. reflexivity. Qed.
Lemma sl_magic_1 : sl magic 8 16 = Some (firstn 8 (skipn 8 magic)).  Proof. reflexivity. Qed.
Lemma sl_magic_2 : sl magic 16 24 = Some (skipn 16 magic).  Proof. reflexivity. Qed.

(* Without the length hypothesis the statement is false: bf_encrypt := fun _ _ => [] makes b[:23] panic
   (derive = None) while spec_derive = Some []. *)
Theorem bcrypt_impl_spec : forall C bf_new bf_expand bf_encrypt alphabet key salt22 cost,
  (forall c b, length (bf_encrypt c b) = length b) ->
  Bcrypt.derive C bf_new bf_expand bf_encrypt alphabet key salt22 cost
  = Bcrypt.spec_derive C bf_new bf_expand bf_encrypt alphabet key salt22 cost.
Proof.
  intros C bf_new bf_expand bf_encrypt alphabet key salt22 cost HL.
  unfold derive, spec_derive, setup.
  destruct (bf_new key (be64_decode alphabet salt22)) as [c0|]; [|reflexivity].
  set (c := iter _ _ c0). unfold encrypt_blocks.
  rewrite sl_magic_0, sl_magic_1, sl_magic_2. cbn [obind].
  assert (L0 : length (firstn 8 magic) = 8%nat) by reflexivity.
  assert (L1 : length (firstn 8 (skipn 8 magic)) = 8%nat) by reflexivity.
  assert (L2 : length (skipn 16 magic) = 8%nat) by reflexivity.
  generalize dependent (firstn 8 magic). generalize dependent (firstn 8 (skipn 8 magic)).
  generalize dependent (skipn 16 magic). intros b2 L2 b1 L1 b0 L0.
  rewrite sl_prefix.
  - rewrite iter_ecb. cbn [map concat]. rewrite app_nil_r. reflexivity.
  - unfold lenZ. rewrite !app_length, !(iter_length C bf_encrypt) by assumption. lia.
Qed.

(* consequently: the derivation never panics, and yields 23 bytes whenever the key size is accepted *)
Corollary bcrypt_derive_length : forall C bf_new bf_expand bf_encrypt alphabet key salt22 cost k,
  (forall c b, length (bf_encrypt c b) = length b) ->
  Bcrypt.derive C bf_new bf_expand bf_encrypt alphabet key salt22 cost = Some k -> length k = 23%nat.
Proof.
  intros C bf_new bf_expand bf_encrypt alphabet key salt22 cost k HL.
  unfold derive, setup. destruct (bf_new key (be64_decode alphabet salt22)); [|discriminate].
  unfold encrypt_blocks. rewrite sl_magic_0, sl_magic_1, sl_magic_2. cbn [obind].
  intros E. apply sl_some_length in E. exact E.
Qed.

Corollary bcrypt_derive_none : forall C bf_new bf_expand bf_encrypt alphabet key salt22 cost,
  (forall c b, length (bf_encrypt c b) = length b) ->
  (Bcrypt.derive C bf_new bf_expand bf_encrypt alphabet key salt22 cost = None
   <-> bf_new key (be64_decode alphabet salt22) = None).
Proof.
  intros C bf_new bf_expand bf_encrypt alphabet key salt22 cost HL.
  rewrite bcrypt_impl_spec by assumption. unfold spec_derive.
  destruct (bf_new key (be64_decode alphabet salt22)); split; intros; (reflexivity || discriminate).
Qed.

Print Assumptions bcrypt_impl_spec.
Print Assumptions bcrypt_derive_length.
Print Assumptions bcrypt_derive_none.
