(* NT hash: the library's conversion of the password (Go string -> []rune -> utf16.Encode -> little-endian bytes,
   model Kdf/NtHash.v) is UTF-16LE of the text: for every sequence of Unicode scalar values, the conversion of its
   UTF-8 encoding is the sequence of UTF-16 code units of those scalar values, low byte first — no replacement
   character, nothing dropped, supplementary-plane characters as surrogate pairs.  (What MD4 is applied to in
   libxcrypt's crypt-nthash for well-formed input.) *)
Require Import GC.Base.Bytes GC.Kdf.NtHash.
Require Import Lia.
Ltac Zify.zify_post_hook ::= Z.div_mod_to_equations.

Definition scalar (c : Z) : Prop := (0 <= c < 55296) \/ (57344 <= c <= 1114111).

(* UTF-8 (RFC 3629) *)
Definition utf8_enc (c : Z) : bytes :=
  if c <? 128 then [c]
  else if c <? 2048 then [192 + c / 64; 128 + c mod 64]
  else if c <? 65536 then [224 + c / 4096; 128 + (c / 64) mod 64; 128 + c mod 64]
  else [240 + c / 262144; 128 + (c / 4096) mod 64; 128 + (c / 64) mod 64; 128 + c mod 64].

(* UTF-16 (RFC 2781) *)
Definition utf16_enc (c : Z) : list Z :=
  if c <? 65536 then [c] else [55296 + (c - 65536) / 1024; 56320 + (c - 65536) mod 1024].

Definition le16 (u : Z) : bytes := [u mod 256; u / 256].

Ltac cmp :=
  match goal with
  | |- context [?a =? ?b] => destruct (Z.eqb_spec a b); try lia
  | |- context [?a <? ?b] => destruct (Z.ltb_spec a b); try lia
  | |- context [?a <=? ?b] => destruct (Z.leb_spec a b); try lia
  end.

Lemma decode_enc c rest : scalar c -> decode_rune (utf8_enc c ++ rest) = (c, length (utf8_enc c)).
Proof.
  unfold scalar, utf8_enc. intro H.
  destruct (Z.ltb_spec c 128).
  { cbn [app]. unfold decode_rune. repeat cmp. reflexivity. }
  destruct (Z.ltb_spec c 2048).
  { cbn [app length]. unfold decode_rune. repeat (cmp; cbn [andb orb]). f_equal. lia. }
  destruct (Z.ltb_spec c 65536).
  { cbn [app length]. unfold decode_rune. repeat (cmp; cbn [andb orb]); f_equal; lia. }
  cbn [app length]. unfold decode_rune. repeat (cmp; cbn [andb orb]); f_equal; lia.
Qed.

Lemma utf8_enc_length c : (1 <= length (utf8_enc c) <= 4)%nat.
Proof. unfold utf8_enc. repeat cmp; cbn [length]; lia. Qed.

Lemma runes_step f s : s <> [] ->
  runes (S f) s = let '(r, n) := decode_rune s in r :: runes f (skipn (Nat.max n 1) s).
Proof. destruct s; [congruence|reflexivity]. Qed.

Lemma skipn_app_exact {A} (a b : list A) : skipn (length a) (a ++ b) = b.
Proof. induction a; [reflexivity|exact IHa]. Qed.

Lemma runes_utf8 cps : Forall scalar cps ->
  forall fuel, (length (flat_map utf8_enc cps) <= fuel)%nat -> runes fuel (flat_map utf8_enc cps) = cps.
Proof.
  induction 1 as [|c r Hc _ IH]; intros fuel Hf.
  - destruct fuel; reflexivity.
  - cbn [flat_map] in *. rewrite app_length in Hf.
    pose proof (utf8_enc_length c) as Hl.
    destruct fuel as [|f]; [lia|].
    rewrite runes_step.
    2:{ destruct (utf8_enc c); [cbn [length] in Hl; lia | discriminate]. }
    rewrite (decode_enc c _ Hc).
    replace (Nat.max (length (utf8_enc c)) 1) with (length (utf8_enc c)) by lia.
    rewrite skipn_app_exact. f_equal. apply IH. lia.
Qed.

Lemma utf16_units_scalar c : scalar c -> utf16_units c = utf16_enc c.
Proof.
  unfold scalar, utf16_units, utf16_enc, RuneError. intro H.
  repeat (cmp; cbn [andb orb]); reflexivity.
Qed.

Theorem encodePassword_utf16le cps : Forall scalar cps ->
  encodePassword (flat_map utf8_enc cps) = flat_map le16 (flat_map utf16_enc cps).
Proof.
  intro H. unfold encodePassword. rewrite (runes_utf8 cps H) by lia.
  f_equal. induction H as [|c r Hc _ IH]; [reflexivity|].
  cbn [flat_map]. now rewrite IH, utf16_units_scalar.
Qed.

(* the code units are 16-bit, so the two bytes written per unit are bytes *)
Lemma utf16_enc_units c : scalar c -> Forall (fun u => 0 <= u < 65536) (utf16_enc c).
Proof.
  unfold scalar, utf16_enc. intro H. repeat cmp; repeat constructor; lia.
Qed.
