(* A small straight-line language for argon2crypto/blamka_generic.go, the target of the translator
   (harness/cmd/harness/gen_blamka.go -> Generated/Gen_blamka.v), with the Go meaning of each construct.

   blamkaGeneric(t00..t15 *uint64): sixteen locals loaded through the parameters, a straight-line program over the
   locals, sixteen stores through the parameters.  Every Go operation on uint64 wraps modulo 2^64; the wrap is written
   out below (go_addmul, go_rot) and related to the functions the model Kdf/Argon2.v uses by the lemmas of
   BlamkaIRProofs.v.

   processBlockGeneric(out, in1, in2 *block, xor bool): `var t block`, loops `for i := range t { d[i] (^)= a[i] ^ b[i] ... }`
   (each iteration reads and writes position i only, so the loop is the element-wise operation on whole blocks even
   when out aliases in1 or in2 — the caller only ever looks at out afterwards), loops of blamkaGeneric calls on the
   addresses of words of t (unrolled by the translator into the word positions passed), and `if xor {..} else {..}`. *)
Require Import GC.Base.Bytes GC.Kdf.Argon2.

Inductive binstr :=
| IAddMul (x y : nat)            (* x += y + 2*uint64(uint32(x))*uint64(uint32(y)) *)
| IXor (x y : nat)               (* x ^= y *)
| IRot (x : nat) (n m : Z)       (* x = x>>n | x<<m *)
| IOther.                        (* anything else: the tie theorem fails *)

(* the Go expressions, operation by operation, on values < 2^64 *)
Definition go_addmul (x y : Z) : Z := u64 (x + u64 (y + u64 (u64 (2 * lo32 x) * lo32 y))).
Definition go_rot (x n m : Z) : Z := Z.lor (Z.shiftr x n) (u64 (Z.shiftl x m)).

Definition bstep (v : list Z) (i : binstr) : list Z :=
  match i with
  | IAddMul x y => setw v x (go_addmul (getw v x) (getw v y))
  | IXor x y => setw v x (Z.lxor (getw v x) (getw v y))
  | IRot x n m => setw v x (go_rot (getw v x) n m)
  | IOther => v
  end.
Definition brun (p : list binstr) (v : list Z) : list Z := fold_left bstep p v.

(* a call blamkaGeneric(&t[idx_0], .., &t[idx_15]): local k is loaded through parameter loads_k; afterwards, in order,
   parameter p receives local r for every (p, r) of stores *)
Definition call_blamka (loads : list nat) (prog : list binstr) (stores : list (nat * nat))
           (t : list Z) (idx : list nat) : list Z :=
  let regs := map (fun p => getw t (nth p idx 0%nat)) loads in
  let regs' := brun prog regs in
  fold_left (fun acc pr => setw acc (nth (fst pr) idx 0%nat) (getw regs' (snd pr))) stores t.

Inductive pbvar := Vout | Vin1 | Vin2 | Vt.
Inductive pbstmt :=
| PZero (d : pbvar)                                   (* var d block *)
| PMap (d : pbvar) (acc : bool) (srcs : list pbvar)   (* for i := range t { d[i] = / ^= srcs_0[i] ^ srcs_1[i] ^ .. } *)
| PCalls (calls : list (list nat))                    (* blamkaGeneric on these words of t, in order *)
| PIf (a b : pbstmt)                                  (* if xor { a } else { b } *)
| POther.

Record pbstate := { s_out : list Z; s_in1 : list Z; s_in2 : list Z; s_t : list Z }.
Definition pb_get (s : pbstate) (v : pbvar) : list Z :=
  match v with Vout => s_out s | Vin1 => s_in1 s | Vin2 => s_in2 s | Vt => s_t s end.
Definition pb_set (s : pbstate) (v : pbvar) (b : list Z) : pbstate :=
  match v with
  | Vout => {| s_out := b; s_in1 := s_in1 s; s_in2 := s_in2 s; s_t := s_t s |}
  | Vin1 => {| s_out := s_out s; s_in1 := b; s_in2 := s_in2 s; s_t := s_t s |}
  | Vin2 => {| s_out := s_out s; s_in1 := s_in1 s; s_in2 := b; s_t := s_t s |}
  | Vt => {| s_out := s_out s; s_in1 := s_in1 s; s_in2 := s_in2 s; s_t := b |}
  end.

Section Run.
  Variables (loads : list nat) (prog : list binstr) (stores : list (nat * nat)).

  Fixpoint pb_step (xor : bool) (s : pbstate) (st : pbstmt) : pbstate :=
    match st with
    | PZero d => pb_set s d zero_block
    | PMap d acc srcs =>
      match srcs with
      | [] => s
      | a :: rest =>
        let v := fold_left (fun acc0 x => xor_blocks acc0 (pb_get s x)) rest (pb_get s a) in
        pb_set s d (if acc then xor_blocks (pb_get s d) v else v)
      end
    | PCalls calls => pb_set s Vt (fold_left (call_blamka loads prog stores) calls (s_t s))
    | PIf a b => if xor then pb_step xor s a else pb_step xor s b
    | POther => s
    end.

  (* the function: the new contents of out *)
  Definition pb_run (body : list pbstmt) (out in1 in2 : list Z) (xor : bool) : list Z :=
    s_out (fold_left (pb_step xor) body {| s_out := out; s_in1 := in1; s_in2 := in2; s_t := [] |}).
End Run.
