(* C09, part 2 (proofs):
     schedule_independent              any interleaving of pairwise independent tasks = running the tasks one after another
     argon2_slice_tasks_independent    the lanes of one Argon2 slice satisfy the side conditions (uses Argon2Index)
     argon2_slice_schedule_independent hence every schedule of a slice computes the memory of the lane-by-lane model
     waitgroup_joined                  when Wait returns, every spawned worker has executed its Done
   Memories are compared extensionally (meq); no axiom is used. *)
Require Import GC.Base.Bytes GC.Kdf.Argon2 GC.Kdf.Argon2Index GC.Kdf.Argon2Sched.
From Coq Require Import Permutation.

(* ------------------------------------------------------------------------- *)
(* Running steps respects extensional equality                                *)
(* ------------------------------------------------------------------------- *)

Lemma meq_refl m : meq m m.
Proof. intros x. reflexivity. Qed.

Lemma meq_trans m1 m2 m3 : meq m1 m2 -> meq m2 m3 -> meq m1 m3.
Proof. intros H1 H2 x. rewrite H1. apply H2. Qed.

Lemma meq_sym m1 m2 : meq m1 m2 -> meq m2 m1.
Proof. intros H x. symmetry. apply H. Qed.

Lemma run_meq s m m' : step_local s -> meq m m' -> meq (run s m) (run s m').
Proof.
  intros Hloc Hm x. unfold run, upd.
  rewrite (Hloc m m') by (intros y _; apply Hm).
  destruct (x =? w s); [reflexivity | apply Hm].
Qed.

Lemma runs_nil m : runs [] m = m.
Proof. reflexivity. Qed.

Lemma runs_cons s l m : runs (s :: l) m = runs l (run s m).
Proof. reflexivity. Qed.

Lemma runs_app l1 l2 m : runs (l1 ++ l2) m = runs l2 (runs l1 m).
Proof. unfold runs. apply fold_left_app. Qed.

Lemma runs_meq l : forall m m', (forall s, In s l -> step_local s) -> meq m m' -> meq (runs l m) (runs l m').
Proof.
  induction l as [|s l IH]; intros m m' Hloc Hm.
  - exact Hm.
  - rewrite !runs_cons. apply IH.
    + intros s' Hs'. apply Hloc. right. exact Hs'.
    + apply run_meq; [apply Hloc; left; reflexivity | exact Hm].
Qed.

(* ------------------------------------------------------------------------- *)
(* Independent steps commute                                                   *)
(* ------------------------------------------------------------------------- *)

Lemma run_commute a b m :
  step_local a -> step_local b -> steps_indep a b ->
  meq (run b (run a m)) (run a (run b m)).
Proof.
  intros Ha Hb (Hw & Hab & Hba) x. unfold run at 1 3.
  assert (Efb : f b (run a m) = f b m).
  { apply Hb. intros y Hy. unfold run, upd.
    destruct (y =? w a) eqn:E; [|reflexivity].
    apply Z.eqb_eq in E. subst y. contradiction. }
  assert (Efa : f a (run b m) = f a m).
  { apply Ha. intros y Hy. unfold run, upd.
    destruct (y =? w b) eqn:E; [|reflexivity].
    apply Z.eqb_eq in E. subst y. contradiction. }
  rewrite Efb, Efa. unfold run, upd.
  destruct (x =? w b) eqn:Eb; destruct (x =? w a) eqn:Ea; try reflexivity.
  apply Z.eqb_eq in Eb. apply Z.eqb_eq in Ea. congruence.
Qed.

(* a step independent of every step of l can be moved behind l *)
Lemma runs_commute s l : forall m,
  step_local s -> (forall b, In b l -> step_local b) -> (forall b, In b l -> steps_indep s b) ->
  meq (runs l (run s m)) (run s (runs l m)).
Proof.
  induction l as [|b l IH]; intros m Hs Hloc Hind.
  - apply meq_refl.
  - rewrite !runs_cons.
    apply meq_trans with (runs l (run s (run b m))).
    + apply runs_meq.
      * intros s' Hs'. apply Hloc. right. exact Hs'.
      * apply run_commute; [exact Hs | apply Hloc; left; reflexivity | apply Hind; left; reflexivity].
    + apply IH; [exact Hs | |]; intros b' Hb'; [apply Hloc | apply Hind]; right; exact Hb'.
Qed.

(* ------------------------------------------------------------------------- *)
(* Task families                                                              *)
(* ------------------------------------------------------------------------- *)

Lemma nth_error_middle {A} (pre : list A) x post : nth_error (pre ++ x :: post) (length pre) = Some x.
Proof. induction pre as [|y pre IH]; [reflexivity | exact IH]. Qed.

(* replacing the task (s :: t) by t keeps every task included in the old one at the same index *)
Lemma nth_error_shrink {A} (pre : list (list A)) s t post : forall i T,
  nth_error (pre ++ t :: post) i = Some T ->
  exists T', nth_error (pre ++ (s :: t) :: post) i = Some T' /\ incl T T'.
Proof.
  induction pre as [|y pre IH]; intros i T H.
  - destruct i as [|i]; cbn in *.
    + inversion H; subst. exists (s :: T). split; [reflexivity | apply incl_tl, incl_refl].
    + exists T. split; [exact H | apply incl_refl].
  - destruct i as [|i]; cbn in *.
    + exists T. split; [exact H | apply incl_refl].
    + apply IH. exact H.
Qed.

Lemma tasks_indep_shrink pre s t post :
  tasks_indep (pre ++ (s :: t) :: post) -> tasks_indep (pre ++ t :: post).
Proof.
  intros H i j A B Hij HA HB a b Ha Hb.
  destruct (nth_error_shrink pre s t post i A HA) as [A' [HA' IA]].
  destruct (nth_error_shrink pre s t post j B HB) as [B' [HB' IB]].
  apply (H i j A' B' Hij HA' HB'); [apply IA | apply IB]; assumption.
Qed.

Lemma tasks_local_shrink pre s t post :
  tasks_local (pre ++ (s :: t) :: post) -> tasks_local (pre ++ t :: post).
Proof.
  intros H T HT x Hx. apply in_app_or in HT. destruct HT as [HT|[HT|HT]].
  - apply (H T); [apply in_or_app; left; exact HT | exact Hx].
  - subst T. apply (H (s :: t)); [apply in_or_app; right; left; reflexivity | right; exact Hx].
  - apply (H T); [apply in_or_app; right; right; exact HT | exact Hx].
Qed.

Lemma in_concat_nth {A} (l : list (list A)) (x : A) :
  In x (concat l) -> exists i T, nth_error l i = Some T /\ In x T /\ (i < length l)%nat.
Proof.
  intros H. apply in_concat in H. destruct H as [T [HT Hx]].
  destruct (In_nth_error _ _ HT) as [i Hi].
  exists i, T. split; [exact Hi|]. split; [exact Hx|].
  apply nth_error_Some. congruence.
Qed.

Lemma concat_all_nil {A} (l : list (list A)) : (forall t, In t l -> t = []) -> concat l = [].
Proof.
  induction l as [|t l IH]; intros H; [reflexivity|].
  cbn. rewrite (H t) by (left; reflexivity). cbn. apply IH. intros t' Ht'. apply H. right. exact Ht'.
Qed.

(* ------------------------------------------------------------------------- *)
(* Schedule independence                                                       *)
(* ------------------------------------------------------------------------- *)

Theorem schedule_independent : forall tasks sigma m,
  tasks_local tasks ->
  tasks_indep tasks ->
  interleaving sigma tasks ->
  forall x, fold_left (fun m s => run s m) sigma m x = fold_left (fun m s => run s m) (concat tasks) m x.
Proof.
  intros tasks sigma m Hloc Hind Hil. revert m Hloc Hind.
  change (forall m, tasks_local tasks -> tasks_indep tasks -> meq (runs sigma m) (runs (concat tasks) m)).
  induction Hil as [tasks Hnil | pre s t post sigma Hil IH]; intros m Hloc Hind.
  - rewrite (concat_all_nil tasks Hnil). apply meq_refl.
  - rewrite runs_cons.
    apply meq_trans with (runs (concat (pre ++ t :: post)) (run s m)).
    { apply IH; [apply tasks_local_shrink with s | apply tasks_indep_shrink with s]; assumption. }
    rewrite !concat_app, !concat_cons. rewrite !runs_app. rewrite runs_cons.
    assert (Hs : step_local s).
    { apply (Hloc (s :: t)); [apply in_or_app; right; left; reflexivity | left; reflexivity]. }
    assert (Hpre : forall b, In b (concat pre) -> step_local b /\ steps_indep s b).
    { intros b Hb. destruct (in_concat_nth pre b Hb) as [i [T [HT [HbT Hi]]]].
      split.
      - apply (Hloc T); [apply in_or_app; left; eapply nth_error_In; exact HT | exact HbT].
      - apply (Hind (length pre) i (s :: t) T).
        + lia.
        + apply nth_error_middle.
        + rewrite nth_error_app1 by exact Hi. exact HT.
        + left; reflexivity.
        + exact HbT. }
    assert (Hrest : forall b, In b (t ++ concat post) -> step_local b).
    { intros b Hb. apply in_app_or in Hb. destruct Hb as [Hb|Hb].
      - apply (Hloc (s :: t)); [apply in_or_app; right; left; reflexivity | right; exact Hb].
      - apply in_concat in Hb. destruct Hb as [T [HT HbT]].
        apply (Hloc T); [apply in_or_app; right; right; exact HT | exact HbT]. }
    apply runs_meq; [intros b Hb; apply Hrest, in_or_app; right; exact Hb|].
    apply runs_meq; [intros b Hb; apply Hrest, in_or_app; left; exact Hb|].
    apply runs_commute; [exact Hs | |]; intros b Hb; apply (Hpre b Hb).
Qed.

(* the definition of interleaving is inhabited by the sequential schedule, and schedules are permutations *)
Lemma interleaving_cons_nil sigma tasks : interleaving sigma tasks -> interleaving sigma ([] :: tasks).
Proof.
  induction 1 as [tasks Hnil | pre s t post sigma Hil IH].
  - apply il_done. intros t [<-|Ht]; [reflexivity | apply Hnil; exact Ht].
  - apply (il_pick ([] :: pre) s t post sigma). exact IH.
Qed.

Lemma interleaving_concat tasks : interleaving (concat tasks) tasks.
Proof.
  induction tasks as [|t tasks IH].
  - apply il_done. intros t [].
  - induction t as [|s t IHt].
    + cbn. apply interleaving_cons_nil. exact IH.
    + cbn. apply (il_pick [] s t tasks). exact IHt.
Qed.

Lemma interleaving_permutation sigma tasks : interleaving sigma tasks -> Permutation sigma (concat tasks).
Proof.
  induction 1 as [tasks Hnil | pre s t post sigma Hil IH].
  - rewrite (concat_all_nil tasks Hnil). constructor.
  - rewrite concat_app, concat_cons in *. rewrite <- app_comm_cons.
    apply Permutation_cons_app. exact IH.
Qed.

(* ------------------------------------------------------------------------- *)
(* Argon2: the lanes of one slice                                              *)
(* ------------------------------------------------------------------------- *)

Section Argon2SliceProofs.
  Variable G : block -> block -> block -> block.
  Variable rnd : Z -> Z -> block -> Z.
  Variables lanes segments threads n slice : Z.
  Hypothesis Hparams : slice_params_ok lanes segments threads n slice.
  Hypothesis Hrnd : rnd_ok rnd.

  Let index0 := index0 n slice.
  Let wloc := wloc lanes segments slice.
  Let prevloc := prevloc lanes segments slice.
  Let footprint := footprint lanes segments threads n slice.
  Let astep := argon2_step G rnd lanes segments threads n slice.

  Lemma index0_range : 0 <= index0 <= 2.
  Proof. unfold index0, Argon2Sched.index0. destruct ((n =? 0) && (slice =? 0)); lia. Qed.

  Lemma index0_first : n = 0 -> slice = 0 -> index0 = 2.
  Proof. intros -> ->. reflexivity. Qed.

  Lemma args_ok lane index rand :
    0 <= rand < 2 ^ 64 -> 0 <= lane < threads -> index0 <= index < segments ->
    index_args_ok rand lanes segments threads n slice lane index.
  Proof.
    intros Hr Hlane Hi.
    destruct Hparams as (Hseg & Hl & Ht & Hmem & Hn & Hs).
    pose proof index0_range as H0.
    unfold index_args_ok. repeat (split; try lia).
    intros En Es. rewrite (index0_first En Es) in Hi. lia.
  Qed.

  (* the write location, as lane*lanes + position *)
  Lemma wloc_pos lane index :
    0 <= index < segments ->
    wloc lane index = lane * lanes + (slice * segments + index) /\
    0 <= slice * segments + index < lanes /\
    slice * segments <= slice * segments + index < (slice + 1) * segments.
  Proof.
    intros Hi. destruct Hparams as (Hseg & Hl & Ht & Hmem & Hn & Hs).
    unfold wloc, Argon2Sched.wloc. split; [lia|]. nia.
  Qed.

  (* prev is a block of the own lane *)
  Lemma prevloc_pos lane index :
    0 <= lane < threads -> 0 <= index < segments ->
    exists p, prevloc lane index = lane * lanes + p /\ 0 <= p < lanes.
  Proof.
    intros Hlane Hi. destruct Hparams as (Hseg & Hl & Ht & Hmem & Hn & Hs).
    destruct (prev_in_own_lane lanes segments threads slice lane index) as (E & Hp & _); try lia.
    eexists. split; [exact E | exact Hp].
  Qed.

  (* side condition 1: the block computation reads only its footprint.
     This is where index_range, other_lane_safe and own_lane_safe are used: the reference block,
     whose index depends on the memory contents, always lies in the footprint. *)
  Lemma argon2_step_local lane index :
    0 <= lane < threads -> index0 <= index < segments -> step_local (astep lane index).
  Proof.
    intros Hlane Hi m m' Hagree. cbn in *.
    fold (wloc lane index). fold (prevloc lane index).
    assert (Ew : m (wloc lane index) = m' (wloc lane index)).
    { apply Hagree. right. left. reflexivity. }
    assert (Ep : m (prevloc lane index) = m' (prevloc lane index)).
    { apply Hagree. left. reflexivity. }
    unfold refloc. fold (prevloc lane index). rewrite Ew, Ep.
    set (rand := rnd lane index (m' (prevloc lane index))).
    assert (Hok : index_args_ok rand lanes segments threads n slice lane index)
      by (apply args_ok; [apply Hrnd | exact Hlane | exact Hi]).
    f_equal. apply Hagree. right. right.
    destruct (index_range _ _ _ _ _ _ _ _ Hok) as [p [E [Hp Hrl]]].
    exists (refLane rand threads n slice lane), p. split; [exact E|].
    unfold ref_allowed. split; [exact Hrl|]. split; [exact Hp|].
    destruct (refLane rand threads n slice lane =? lane) eqn:Erl;
      [apply Z.eqb_eq in Erl | apply Z.eqb_neq in Erl].
    - exact (own_lane_safe _ _ _ _ _ _ _ _ Hok Erl p E).
    - exact (proj2 (other_lane_safe _ _ _ _ _ _ _ _ Hok Erl p E)).
  Qed.

  (* a step of lane A never reads a block that lane B <> A writes in the same slice *)
  Lemma argon2_no_read A i B j :
    A <> B -> 0 <= A < threads -> 0 <= B < threads -> index0 <= i < segments -> index0 <= j < segments ->
    ~ footprint A i (wloc B j).
  Proof.
    intros HAB HA HB Hi Hj Hfp.
    pose proof index0_range as H0.
    destruct (wloc_pos B j) as (EB & HpB & HsB); [lia|].
    destruct Hfp as [Hfp|[Hfp|Hfp]].
    - destruct (prevloc_pos A i) as (p & Ep & Hp); [lia|lia|].
      rewrite EB in Hfp. fold (prevloc A i) in Hfp. rewrite Ep in Hfp.
      destruct (lane_pos_unique lanes B _ A _ HpB Hp Hfp) as [E _]. lia.
    - destruct (wloc_pos A i) as (EA & HpA & HsA); [lia|].
      fold (wloc A i) in Hfp. rewrite EA, EB in Hfp.
      destruct (lane_pos_unique lanes B _ A _ HpB HpA Hfp) as [E _]. lia.
    - destruct Hfp as (rl & p & E & Hrl & Hp & Hcond).
      rewrite EB in E.
      destruct (lane_pos_unique lanes B _ rl _ HpB Hp E) as [E1 E2]. subst rl p.
      assert (Ene : (B =? A) = false) by (apply Z.eqb_neq; lia).
      rewrite Ene in Hcond.
      destruct (n =? 0); lia.
  Qed.

  Lemma argon2_steps_indep A i B j :
    A <> B -> 0 <= A < threads -> 0 <= B < threads -> index0 <= i < segments -> index0 <= j < segments ->
    steps_indep (astep A i) (astep B j).
  Proof.
    intros HAB HA HB Hi Hj. pose proof index0_range as H0.
    unfold steps_indep. cbn. fold (wloc A i). fold (wloc B j).
    split; [|split].
    - intros E.
      destruct (wloc_pos A i) as (EA & HpA & _); [lia|].
      destruct (wloc_pos B j) as (EB & HpB & _); [lia|].
      rewrite EA, EB in E.
      destruct (lane_pos_unique lanes A _ B _ HpA HpB E) as [E1 _]. lia.
    - apply argon2_no_read; assumption.
    - apply argon2_no_read; try assumption. lia.
  Qed.

  (* the steps of a lane task *)
  Lemma in_lane_task lane s :
    In s (lane_task G rnd lanes segments threads n slice lane) ->
    exists index, s = astep lane index /\ index0 <= index < segments.
  Proof.
    unfold lane_task, segment_indices. intros H.
    apply in_map_iff in H. destruct H as [index [Es Hin]].
    apply in_map_iff in Hin. destruct Hin as [k [Ek Hk]].
    apply in_seq in Hk. exists index. split; [symmetry; exact Es|].
    fold index0 in Ek. pose proof index0_range. lia.
  Qed.

  Lemma nth_error_seq0 len : forall start k x, nth_error (seq start len) k = Some x -> (x = start + k /\ k < len)%nat.
  Proof.
    induction len as [|len IH]; intros start k x H.
    - destruct k; discriminate.
    - destruct k as [|k]; cbn in H.
      + inversion H. lia.
      + apply IH in H. lia.
  Qed.

  Lemma nth_slice_task i T :
    nth_error (slice_tasks G rnd lanes segments threads n slice) i = Some T ->
    T = lane_task G rnd lanes segments threads n slice (Z.of_nat i) /\ 0 <= Z.of_nat i < threads.
  Proof.
    unfold slice_tasks. rewrite nth_error_map.
    destruct (nth_error (seq 0 (Z.to_nat threads)) i) as [l|] eqn:E; [|discriminate].
    cbn. intros H. inversion H; subst T. apply nth_error_seq0 in E. destruct E as [-> Hlt].
    split; [reflexivity | lia].
  Qed.

  (* The side conditions of schedule_independent hold for the lanes of one slice. *)
  Corollary argon2_slice_tasks_independent :
    tasks_local (slice_tasks G rnd lanes segments threads n slice) /\
    tasks_indep (slice_tasks G rnd lanes segments threads n slice).
  Proof.
    split.
    - intros T HT s Hs.
      destruct (In_nth_error _ _ HT) as [i Hi].
      destruct (nth_slice_task i T Hi) as [-> Hrange].
      destruct (in_lane_task _ s Hs) as [index [-> Hidx]].
      apply argon2_step_local; assumption.
    - intros i j A B Hij HA HB a b Ha Hb.
      destruct (nth_slice_task i A HA) as [-> Hri].
      destruct (nth_slice_task j B HB) as [-> Hrj].
      destruct (in_lane_task _ a Ha) as [ia [-> Hia]].
      destruct (in_lane_task _ b Hb) as [ib [-> Hib]].
      apply argon2_steps_indep; try assumption. lia.
  Qed.

  (* Every schedule of the goroutines of one slice computes the memory obtained by processing
     lane 0, then lane 1, ... (the order used by Argon2.processBlocks). *)
  Theorem argon2_slice_schedule_independent sigma m :
    interleaving sigma (slice_tasks G rnd lanes segments threads n slice) ->
    meq (runs sigma m) (runs (concat (slice_tasks G rnd lanes segments threads n slice)) m).
  Proof.
    intros Hil x. destruct argon2_slice_tasks_independent as [Hloc Hind].
    exact (schedule_independent _ sigma m Hloc Hind Hil x).
  Qed.
End Argon2SliceProofs.

(* the hypotheses on rnd are satisfiable by the two addressing modes *)
Lemma rnd_ok_data_dependent : rnd_ok (fun _ _ b => u64 (getw b 0)).
Proof. intros lane index b. unfold u64. apply Z.mod_pos_bound. lia. Qed.

Lemma rnd_ok_data_independent (J : Z -> Z -> Z) : rnd_ok (fun lane index _ => u64 (J lane index)).
Proof. intros lane index b. unfold u64. apply Z.mod_pos_bound. lia. Qed.

(* shape check against the model: with G := process_block _ _ _ xor and the list memory B viewed as getb B,
   the value computed by a step is literally the `newblock` of one iteration of Argon2.segment_loop
   (see Argon2Index.segment_loop_unfold) at offset = wloc lane index, for random = rnd lane index (B[prev]) *)
Lemma argon2_step_matches_loop_body (xor : bool) rnd lanes segments threads n slice lane index (B : Argon2.mem) :
  f (argon2_step (fun o a b => process_block o a b xor) rnd lanes segments threads n slice lane index) (getb B) =
  let offset := wloc lanes segments slice lane index in
  let prev := prevOf lanes slice index offset in
  let random := rnd lane index (getb B prev) in
  let newOffset := indexAlpha random lanes segments threads n slice lane index in
  process_block (getb B offset) (getb B prev) (getb B newOffset) xor.
Proof. reflexivity. Qed.

(* ------------------------------------------------------------------------- *)
(* WaitGroup                                                                   *)
(* ------------------------------------------------------------------------- *)

Definition wg_inv (st : wg_state) : Prop :=
  cnt st = pending st + Z.of_nat (length (spawned st)) - Z.of_nat (length (finished st)) /\
  0 <= pending st /\
  NoDup (spawned st) /\ NoDup (finished st) /\ incl (finished st) (spawned st).

Lemma wg_inv_init : wg_inv wg_init.
Proof. unfold wg_inv, wg_init; cbn. repeat split; try lia; try constructor. intros x []. Qed.

Lemma wg_inv_step st e st' : wg_step st e st' -> wg_inv st -> wg_inv st'.
Proof.
  intros Hstep (Hc & Hp & Hns & Hnf & Hincl).
  destruct Hstep as [st Hw | st i Hw Hpend Hnew | st i Hsp Hnf' | st i Hsp Hnf' | st Hc0]; unfold wg_inv; cbn.
  - repeat split; try assumption; lia.
  - repeat split; try lia.
    + constructor; assumption.
    + assumption.
    + apply incl_tl. exact Hincl.
  - repeat split; assumption.
  - repeat split; try lia.
    + assumption.
    + constructor; assumption.
    + intros x [<-|Hx]; [exact Hsp | apply Hincl; exact Hx].
  - repeat split; assumption.
Qed.

Lemma wg_inv_steps st tr st' : wg_steps st tr st' -> wg_inv st -> wg_inv st'.
Proof. induction 1 as [|st e st1 tr st2 Hs _ IH]; intros Hinv; [exact Hinv | apply IH, (wg_inv_step _ _ _ Hs Hinv)]. Qed.

Lemma wg_steps_app st a : forall b st', wg_steps st (a ++ b) st' ->
  exists mid, wg_steps st a mid /\ wg_steps mid b st'.
Proof.
  revert st. induction a as [|e a IH]; intros st b st' H.
  - exists st. split; [constructor | exact H].
  - cbn in H. inversion H as [|? ? st1 ? ? Hs Hrest]; subst.
    destruct (IH st1 b st' Hrest) as [mid [H1 H2]].
    exists mid. split; [econstructor; eassumption | exact H2].
Qed.

(* everything in `finished` was put there by a Done event *)
Lemma finished_hist st tr st' i : wg_steps st tr st' ->
  In i (finished st') -> In i (finished st) \/ In (EvDone i) tr.
Proof.
  induction 1 as [|st e st1 tr st2 Hs _ IH]; intros Hin; [left; exact Hin|].
  destruct (IH Hin) as [H1|H1]; [|right; right; exact H1].
  destruct Hs; cbn in H1; try (left; exact H1).
  destruct H1 as [<-|H1]; [right; left; reflexivity | left; exact H1].
Qed.

(* every Spawn event is recorded in `spawned` *)
Lemma spawned_mono st tr st' i : wg_steps st tr st' -> In i (spawned st) -> In i (spawned st').
Proof.
  induction 1 as [|st e st1 tr st2 Hs _ IH]; intros Hin; [exact Hin|].
  apply IH. destruct Hs; cbn; try exact Hin. right. exact Hin.
Qed.

Lemma spawned_hist st tr st' i : wg_steps st tr st' -> In (EvSpawn i) tr -> In i (spawned st').
Proof.
  induction 1 as [|st e st1 tr st2 Hs Hrest IH]; intros Hin; [destruct Hin|].
  destruct Hin as [->|Hin]; [|apply IH; exact Hin].
  apply (spawned_mono _ _ _ _ Hrest). inversion Hs; subst. cbn. left. reflexivity.
Qed.

(* after Wait has returned the parent spawns nothing, and no worker is still running *)
Lemma after_wait st tr st' : wg_steps st tr st' ->
  waited st = true -> incl (spawned st) (finished st) ->
  forall i, ~ In (EvSpawn i) tr /\ ~ In (EvWork i) tr /\ ~ In (EvDone i) tr.
Proof.
  induction 1 as [|st e st1 tr st2 Hs _ IH]; intros Hw Hincl i.
  - repeat split; intros [].
  - assert (H1 : waited st1 = true /\ incl (spawned st1) (finished st1) /\
                 e <> EvSpawn i /\ e <> EvWork i /\ e <> EvDone i).
    { destruct Hs as [st Hw' | st k Hw' _ _ | st k Hsp Hnf | st k Hsp Hnf | st _]; cbn.
      - congruence.
      - congruence.
      - exfalso. apply Hnf, Hincl, Hsp.
      - exfalso. apply Hnf, Hincl, Hsp.
      - repeat split; try assumption; discriminate. }
    destruct H1 as (Hw1 & Hincl1 & N1 & N2 & N3).
    destruct (IH Hw1 Hincl1 i) as (I1 & I2 & I3).
    repeat split; intros [E|Hin]; try (symmetry in E; contradiction); contradiction.
Qed.

Theorem waitgroup_joined : forall trace pre post,
  valid trace -> wait_returned trace pre post ->
  forall i, In (EvSpawn i) trace -> In (EvDone i) pre.
Proof.
  intros trace pre post [st Hsteps] -> i Hsp.
  destruct (wg_steps_app _ _ _ _ Hsteps) as [s1 [Hpre Hrest]].
  inversion Hrest as [|? ? s2 ? ? Hwait Hpost]; subst.
  pose proof (wg_inv_steps _ _ _ Hpre wg_inv_init) as (Hc & Hp & Hns & Hnf & Hincl).
  assert (Hc0 : cnt s1 = 0) by (inversion Hwait; assumption).
  assert (Hlen : (length (finished s1) <= length (spawned s1))%nat) by (apply NoDup_incl_length; assumption).
  assert (Hall : incl (spawned s1) (finished s1)).
  { apply NoDup_length_incl; [exact Hnf | lia | exact Hincl]. }
  assert (Hs2 : waited s2 = true /\ spawned s2 = spawned s1 /\ finished s2 = finished s1)
    by (inversion Hwait; subst; cbn; repeat split).
  destruct Hs2 as (Hw2 & Es & Ef).
  assert (Hinpre : In (EvSpawn i) pre).
  { apply in_app_or in Hsp. destruct Hsp as [H|[H|H]]; [exact H | discriminate H |].
    exfalso. rewrite <- Es, <- Ef in Hall.
    exact (proj1 (after_wait _ _ _ Hpost Hw2 Hall i) H). }
  pose proof (spawned_hist _ _ _ _ Hpre Hinpre) as Hins.
  destruct (finished_hist _ _ _ i Hpre (Hall i Hins)) as [[]|H]. exact H.
Qed.

(* consequently no worker event happens after Wait has returned: all block computations of a slice
   precede the Wait-return, hence the next slice *)
Theorem waitgroup_quiescent : forall trace pre post,
  valid trace -> wait_returned trace pre post ->
  forall i, ~ In (EvWork i) post /\ ~ In (EvDone i) post /\ ~ In (EvSpawn i) post.
Proof.
  intros trace pre post [st Hsteps] -> i.
  destruct (wg_steps_app _ _ _ _ Hsteps) as [s1 [Hpre Hrest]].
  inversion Hrest as [|? ? s2 ? ? Hwait Hpost]; subst.
  pose proof (wg_inv_steps _ _ _ Hpre wg_inv_init) as (Hc & Hp & Hns & Hnf & Hincl).
  assert (Hc0 : cnt s1 = 0) by (inversion Hwait; assumption).
  assert (Hlen : (length (finished s1) <= length (spawned s1))%nat) by (apply NoDup_incl_length; assumption).
  assert (Hall : incl (spawned s1) (finished s1)).
  { apply NoDup_length_incl; [exact Hnf | lia | exact Hincl]. }
  assert (Hs2 : waited s2 = true /\ spawned s2 = spawned s1 /\ finished s2 = finished s1)
    by (inversion Hwait; subst; cbn; repeat split).
  destruct Hs2 as (Hw2 & Es & Ef).
  rewrite <- Es, <- Ef in Hall.
  destruct (after_wait _ _ _ Hpost Hw2 Hall i) as (A1 & A2 & A3). repeat split; assumption.
Qed.

(* the model is not vacuous: the trace of processBlocks for two lanes is valid *)
Example wg_trace_valid :
  valid [EvAdd; EvSpawn 0; EvAdd; EvWork 0; EvSpawn 1; EvWork 1; EvDone 1; EvWork 0; EvDone 0; EvWaitRet]%nat.
Proof.
  unfold valid. eexists.
  repeat (eapply wgs_cons; [first
    [ apply ws_add; reflexivity
    | apply ws_spawn; cbn; [reflexivity | lia | intuition congruence]
    | apply ws_work; cbn; intuition congruence
    | apply ws_done; cbn; intuition congruence
    | apply ws_wait; cbn; lia ] | cbn ]).
  apply wgs_nil.
Qed.

Print Assumptions schedule_independent.
Print Assumptions interleaving_concat.
Print Assumptions interleaving_permutation.
Print Assumptions argon2_slice_tasks_independent.
Print Assumptions argon2_slice_schedule_independent.
Print Assumptions waitgroup_joined.
Print Assumptions waitgroup_quiescent.
