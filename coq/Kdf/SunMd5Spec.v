(* Sun MD5 coin toss: the byte/mask arithmetic of sunmd5.go's `bit` closure (model Kdf/SunMd5.v: land with 1 << (off % 8)
   of byte off/8 after off %= 128) is bit (off mod 128) of the digest read as ONE little-endian number — the
   "128-bit string" of the published algorithm (Solaris crypt_sunmd5: bit n lives in byte n/8 at position n mod 8). *)
Require Import GC.Base.Bytes GC.Kdf.KdfBase GC.Kdf.SunMd5.

(* the digest as a little-endian number: byte k contributes digest[k] * 256^k *)
Definition le_num (d : bytes) : Z := fold_right (fun b acc => b + 256 * acc) 0 d.

Definition byte_ok (b : Z) : Prop := 0 <= b < 256.

Lemma land_shiftl1 : forall a k, 0 <= k -> (Z.land a (Z.shiftl 1 k) =? 0) = negb (Z.testbit a k).
Proof.
  intros a k Hk. rewrite Z.shiftl_1_l.
  destruct (Z.testbit a k) eqn:E; cbn [negb].
  - apply Z.eqb_neq. intro C.
    assert (T : Z.testbit (Z.land a (2 ^ k)) k = true).
    { rewrite Z.land_spec, E, Z.pow2_bits_true by lia. reflexivity. }
    rewrite C, Z.bits_0 in T. discriminate.
  - apply Z.eqb_eq. apply Z.bits_inj'. intros n Hn.
    rewrite Z.land_spec, Z.bits_0, Z.pow2_bits_eqb by lia.
    destruct (Z.eqb_spec k n) as [Ekn|Nkn].
    + subst n. rewrite E. reflexivity.
    + apply andb_false_r.
Qed.

Lemma bit_bytewise : forall d off,
  bit d off = Z.b2z (Z.testbit (dig d ((off mod 128) / 8)) ((off mod 128) mod 8)).
Proof.
  intros d off. unfold bit. cbv zeta.
  rewrite land_shiftl1 by (apply Z.mod_pos_bound; lia).
  rewrite negb_involutive. destruct (Z.testbit _ _); reflexivity.
Qed.

Lemma testbit_cons_low : forall b x n, byte_ok b -> 0 <= n < 8 -> Z.testbit (b + 256 * x) n = Z.testbit b n.
Proof.
  intros b x n Hb Hn.
  rewrite <- (Z.mod_pow2_bits_low (b + 256 * x) 8 n) by lia.
  f_equal. change (2 ^ 8) with 256. unfold byte_ok in Hb.
  symmetry. apply (Z.mod_unique_pos _ _ x b); lia.
Qed.

Lemma testbit_cons_high : forall b x n, byte_ok b -> 8 <= n -> Z.testbit (b + 256 * x) n = Z.testbit x (n - 8).
Proof.
  intros b x n Hb Hn.
  replace n with ((n - 8) + 8) at 1 by lia.
  rewrite <- Z.div_pow2_bits by lia. f_equal. change (2 ^ 8) with 256. unfold byte_ok in Hb.
  symmetry. apply (Z.div_unique_pos _ _ x b); lia.
Qed.

Lemma testbit_le_num : forall d, Forall byte_ok d -> forall n, 0 <= n ->
  Z.testbit (le_num d) n = Z.testbit (dig d (n / 8)) (n mod 8).
Proof.
  induction d as [|b d IH]; intros Hd n Hn.
  - unfold dig. cbn [le_num fold_right]. destruct (Z.to_nat (n / 8)); cbn [nth]; rewrite !Z.bits_0; reflexivity.
  - inversion Hd as [|b' d' Hb Hd']; subst. change (le_num (b :: d)) with (b + 256 * le_num d).
    destruct (Z_lt_le_dec n 8) as [Lo|Hi].
    + rewrite testbit_cons_low by (auto; lia).
      rewrite Z.div_small, Z.mod_small by lia. reflexivity.
    + rewrite testbit_cons_high by (auto; lia). rewrite IH by (auto; lia).
      assert (Q : n / 8 = (n - 8) / 8 + 1).
      { replace n with ((n - 8) + 1 * 8) at 1 by lia. rewrite Z.div_add by lia. reflexivity. }
      assert (R : n mod 8 = (n - 8) mod 8).
      { replace n with ((n - 8) + 1 * 8) at 1 by lia. rewrite Z.mod_add by lia. reflexivity. }
      rewrite R. unfold dig. rewrite Q.
      assert (P : 0 <= (n - 8) / 8) by (apply Z.div_pos; lia).
      rewrite Z2Nat.inj_add by lia. change (Z.to_nat 1) with 1%nat.
      rewrite Nat.add_1_r. cbn [nth]. reflexivity.
Qed.

(* the coin-toss bit selector is bit (off mod 128) of the digest as a little-endian number *)
Theorem bit_is_testbit : forall d off, Forall byte_ok d ->
  bit d off = Z.b2z (Z.testbit (le_num d) (off mod 128)).
Proof.
  intros d off Hd. rewrite bit_bytewise.
  rewrite testbit_le_num by (auto; apply Z.mod_pos_bound; lia). reflexivity.
Qed.

(* for a 16-byte digest no selector falls outside the number: le_num d < 2^128, so the reduction mod 128 loses nothing *)
Lemma le_num_bound : forall d, Forall byte_ok d -> 0 <= le_num d < 256 ^ Z.of_nat (length d).
Proof.
  induction d as [|b d IH]; intros Hd.
  - cbn. lia.
  - inversion Hd as [|b' d' Hb Hd']; subst. specialize (IH Hd').
    change (le_num (b :: d)) with (b + 256 * le_num d). cbn [length].
    rewrite Nat2Z.inj_succ, Z.pow_succ_r by lia. unfold byte_ok in Hb. nia.
Qed.

Theorem bit_01 : forall d off, 0 <= bit d off <= 1.
Proof. intros d off. rewrite bit_bytewise. destruct (Z.testbit _ _); cbn; lia. Qed.

(* indA / indB gathering: bit j of the gathered byte is the digest bit selected by ind7[base + j]; nothing else is set *)
Definition gatherf (f : Z -> bool) : Z :=
  fold_left (fun acc j => Z.lor acc (Z.shiftl (Z.b2z (f j)) j)) [0;1;2;3;4;5;6;7] 0.

Lemma tb_shl_b2z : forall x j k, 0 <= j -> 0 <= k -> Z.testbit (Z.shiftl (Z.b2z x) j) k = x && (k =? j).
Proof.
  intros x j k Hj Hk. destruct (Z_lt_le_dec k j) as [Lo|Hi].
  - rewrite Z.shiftl_spec_low by lia. replace (k =? j) with false by (symmetry; apply Z.eqb_neq; lia).
    symmetry. apply andb_false_r.
  - rewrite Z.shiftl_spec by lia. destruct x; cbn [Z.b2z andb].
    + change 1 with (2 ^ 0). rewrite Z.pow2_bits_eqb by lia.
      destruct (Z.eqb_spec 0 (k - j)) as [E|N]; destruct (Z.eqb_spec k j) as [E'|N']; try reflexivity; lia.
    + apply Z.bits_0.
Qed.

Lemma gatherf_bit : forall f j, 0 <= j < 8 -> Z.testbit (gatherf f) j = f j.
Proof.
  intros f j Hj. unfold gatherf. cbn [fold_left].
  rewrite !Z.lor_spec, !tb_shl_b2z, Z.bits_0 by lia.
  assert (C : j = 0 \/ j = 1 \/ j = 2 \/ j = 3 \/ j = 4 \/ j = 5 \/ j = 6 \/ j = 7) by lia.
  destruct C as [C|[C|[C|[C|[C|[C|[C|C]]]]]]]; subst j; cbn [Z.eqb Pos.eqb];
    rewrite ?andb_false_r, ?andb_true_r, ?orb_false_r; reflexivity.
Qed.

Lemma gatherf_bound : forall f, 0 <= gatherf f < 256.
Proof.
  intros f. unfold gatherf. cbn [fold_left].
  destruct (f 0), (f 1), (f 2), (f 3), (f 4), (f 5), (f 6), (f 7); vm_compute; split; (discriminate || reflexivity).
Qed.

Lemma gather_gatherf : forall d base,
  gather d base = gatherf (fun j => Z.testbit (dig d ((ind7 d (base + j) mod 128) / 8)) ((ind7 d (base + j) mod 128) mod 8)).
Proof. intros d base. unfold gather, gatherf. cbn [fold_left]. rewrite !bit_bytewise. reflexivity. Qed.

Theorem gather_bit : forall d base j, Forall byte_ok d -> 0 <= j < 8 ->
  Z.testbit (gather d base) j = Z.testbit (le_num d) (ind7 d (base + j) mod 128).
Proof.
  intros d base j Hd Hj. rewrite gather_gatherf, gatherf_bit by exact Hj.
  rewrite testbit_le_num by (auto; apply Z.mod_pos_bound; lia). reflexivity.
Qed.

Theorem gather_bound : forall d base, 0 <= gather d base < 256.
Proof. intros d base. rewrite gather_gatherf. apply gatherf_bound. Qed.

(* the coin: XOR of two digest bits, selected by the gathered bytes shifted by digest bits i and i+64 (uint32 wrap) *)
Theorem coin_is_xor_of_digest_bits : forall d i, Forall byte_ok d ->
  coin d i = xorb (Z.testbit (le_num d) ((Z.land (Z.shiftr (gather d 0) (bit d i)) 127) mod 128))
                  (Z.testbit (le_num d) ((Z.land (Z.shiftr (gather d 8) (bit d (u32 (i + 64)))) 127) mod 128)).
Proof.
  intros d i Hd. unfold coin. cbv zeta. rewrite !(bit_is_testbit d (Z.land _ _)) by exact Hd.
  destruct (Z.testbit (le_num d) _), (Z.testbit (le_num d) _); reflexivity.
Qed.

(* the selectors built by the round function are already below 128: the reduction `off %= 128` only ever acts on i and i+64 *)
Lemma land127_range : forall a, 0 <= Z.land a 127 < 128.
Proof. intros a. change 127 with (Z.ones 7). rewrite Z.land_ones by lia. apply Z.mod_pos_bound. reflexivity. Qed.

Theorem ind7_range : forall d j, 0 <= ind7 d j < 128.
Proof. intros d j. unfold ind7. cbv zeta. apply land127_range. Qed.

Theorem gather_bit_exact : forall d base j, Forall byte_ok d -> 0 <= j < 8 ->
  Z.testbit (gather d base) j = Z.testbit (le_num d) (ind7 d (base + j)).
Proof.
  intros d base j Hd Hj. rewrite gather_bit by assumption.
  rewrite Z.mod_small by apply ind7_range. reflexivity.
Qed.

Theorem coin_exact : forall d i, Forall byte_ok d ->
  coin d i = xorb (Z.testbit (le_num d) (Z.land (Z.shiftr (gather d 0) (bit d i)) 127))
                  (Z.testbit (le_num d) (Z.land (Z.shiftr (gather d 8) (bit d (u32 (i + 64)))) 127)).
Proof.
  intros d i Hd. rewrite coin_is_xor_of_digest_bits by exact Hd.
  rewrite !(Z.mod_small (Z.land _ 127) 128) by apply land127_range. reflexivity.
Qed.

Print Assumptions gather_bit_exact.
Print Assumptions coin_exact.

Print Assumptions gather_bit.
Print Assumptions gather_bound.
Print Assumptions coin_is_xor_of_digest_bits.

Print Assumptions bit_is_testbit.
Print Assumptions le_num_bound.
