(* C09, part 3: REFINEMENT of the literal Argon2 model (Kdf/Argon2.v: list memory, segment_loop with explicit
   uint32 offsets and address-block state) by the abstract step model of Kdf/Argon2Sched.v, so that the
   schedule-independence theorem of Kdf/Argon2SchedProofs.v becomes a statement about Argon2.processSegment /
   Argon2.processBlocks themselves.

     segment_refines   (R1)  abs (processSegment B ... lane)  ==  runs (lane_task G rnd ... lane) (abs B)
     slice_refines     (R2)  abs (fold processSegment over lanes 0..threads-1)  ==  runs (concat slice_tasks) (abs B)
     slice_any_schedule(R3)  every interleaving of the lane tasks of a slice computes the memory of the
                             lane-after-lane fold of Argon2.processSegment
   (R4, all passes and slices, is in Kdf/Argon2RefineAll.v.)

   abs B is the function memory of a list memory:  abs B x = getb B x for 0 <= x, zero_block for x < 0.
   (The guard is necessary: getb B (-1) = getb B 0 because Z.to_nat (-1) = 0, so `fun x => getb B x` does NOT commute
   with a write to block 0; on 0 <= x the two agree, see abs_nonneg.)

   G   := process_block _ _ _ (negb (version =? 16))
   rnd := model_rnd: u64 of the first word of block prev (data-dependent addressing), or u64 of the word of the
          address block that segment_loop computes for (n, slice, lane, index) (data-independent addressing;
          addr_word replays next_addresses from the initial state of processSegment).  u64 is the identity on
          uint64 values; indexAlpha only looks at rand mod 2^64 (indexAlpha_u64), so no invariant on the contents of
          the blocks is needed.
   No axiom is used; no Zify div/mod hook. *)
Require Import GC.Base.Bytes GC.Kdf.Argon2 GC.Kdf.Argon2Index GC.Kdf.Argon2Sched GC.Kdf.Argon2SchedProofs.

(* ------------------------------------------------------------------------- *)
(* Definitions                                                                *)
(* ------------------------------------------------------------------------- *)

(* the list memory as a function memory *)
Definition abs (B : Argon2.mem) : Argon2Sched.mem := fun x => if x <? 0 then zero_block else getb B x.

(* the let-bound `indep` of Argon2.processSegment: data-independent addressing for this (pass, slice)?
   (Argon2i always; Argon2id in the first two slices of the first pass) *)
Definition indep_of (mode n slice : Z) : bool :=
  (mode =? Argon2i) || ((mode =? Argon2id) && (n =? 0) && (slice <? 2)).

(* the update of the (input block, address block) state in one iteration of Argon2.segment_loop *)
Definition addr_step (indep : bool) (st : list Z * list Z) (index : Z) : list Z * list Z :=
  if indep && (index mod 128 =? 0) then next_addresses (fst st) else st.

(* the state after the updates of iterations index, index+1, ..., index+k-1 *)
Fixpoint addr_iter (k : nat) (indep : bool) (st : list Z * list Z) (index : Z) : list Z * list Z :=
  match k with
  | O => st
  | S k' => addr_iter k' indep (addr_step indep st index) (index + 1)
  end.

(* the pseudo-random word used by iteration `index` of a loop started at `from` in state st *)
Definition addr_word_from (indep : bool) (st : list Z * list Z) (from index : Z) : Z :=
  getw (snd (addr_iter (Z.to_nat (index - from + 1)) indep st from)) (Z.to_nat (index mod 128)).

(* the state with which Argon2.processSegment enters segment_loop *)
Definition seg_init (mode time memory n slice lane : Z) : list Z * list Z :=
  let indep := indep_of mode n slice in
  let inb0 := if indep then [n; lane; slice; memory; time; mode] ++ repeat 0 122 else zero_block in
  let first := (n =? 0) && (slice =? 0) in
  if first && ((mode =? Argon2i) || (mode =? Argon2id)) then next_addresses inb0 else (inb0, zero_block).

(* J1||J2 of block (lane, index) of segment (n, slice) under data-independent addressing: a function of the
   parameters, the lane and the index only *)
Definition addr_word (mode time memory n slice lane index : Z) : Z :=
  addr_word_from (indep_of mode n slice) (seg_init mode time memory n slice lane) (index0 n slice) index.

Definition model_rnd (mode time memory n slice : Z) : Z -> Z -> block -> Z :=
  fun lane index prevblock =>
    u64 (if indep_of mode n slice then addr_word mode time memory n slice lane index else getw prevblock 0).

Definition model_G (version : Z) : block -> block -> block -> block :=
  fun o a b => process_block o a b (negb (version =? 16)).

(* Argon2.processBlocks for one slice: lane after lane *)
Definition process_slice (B : Argon2.mem) (mode version time memory lanes segments threads n slice : Z) : Argon2.mem :=
  fold_left (fun B lane => processSegment B mode version time memory lanes segments threads n slice lane)
            (map Z.of_nat (seq 0 (Z.to_nat threads))) B.

(* ------------------------------------------------------------------------- *)
(* List memory vs function memory                                              *)
(* ------------------------------------------------------------------------- *)

Lemma abs_nonneg B x : 0 <= x -> abs B x = getb B x.
Proof. intros H. unfold abs. destruct (x <? 0) eqn:E; [apply Z.ltb_lt in E; lia | reflexivity]. Qed.

Lemma setb_length B : forall i v, length (setb B i v) = length B.
Proof.
  induction B as [|x B IH]; intros i v; [reflexivity|].
  destruct i as [|i]; cbn; [reflexivity | rewrite IH; reflexivity].
Qed.

Lemma nth_setb B : forall i j v d, (i < length B)%nat ->
  nth j (setb B i v) d = if Nat.eqb j i then v else nth j B d.
Proof.
  induction B as [|x B IH]; intros i j v d Hi; [cbn in Hi; lia|].
  destruct i as [|i]; destruct j as [|j]; cbn; try reflexivity.
  apply IH. cbn in Hi. lia.
Qed.

(* a write inside the list is the function update *)
Lemma abs_setb B a v : 0 <= a < Z.of_nat (length B) -> meq (abs (setb B (Z.to_nat a) v)) (upd (abs B) a v).
Proof.
  intros Ha x. unfold abs, upd.
  destruct (x <? 0) eqn:Ex.
  - apply Z.ltb_lt in Ex. destruct (x =? a) eqn:E; [apply Z.eqb_eq in E; lia | reflexivity].
  - apply Z.ltb_ge in Ex. unfold getb. rewrite nth_setb by lia.
    destruct (x =? a) eqn:E; [apply Z.eqb_eq in E | apply Z.eqb_neq in E].
    + subst x. rewrite Nat.eqb_refl. reflexivity.
    + destruct (Nat.eqb (Z.to_nat x) (Z.to_nat a)) eqn:E2; [|reflexivity].
      apply Nat.eqb_eq in E2. lia.
Qed.

(* ------------------------------------------------------------------------- *)
(* indexAlpha only looks at rand mod 2^64                                      *)
(* ------------------------------------------------------------------------- *)

Lemma land_u64 r : Z.land (u64 r) 4294967295 = Z.land r 4294967295.
Proof.
  rewrite !land_mask32. unfold u64. symmetry. apply Znumtheory.Zmod_div_mod; try lia.
  exists (2 ^ 32). reflexivity.
Qed.

Lemma shiftr_u64 r : u32 (Z.shiftr (u64 r) 32) = u32 (Z.shiftr r 32).
Proof.
  rewrite !shiftr32. unfold u32, u64.
  replace (2 ^ 64) with (2 ^ 32 * 2 ^ 32) by reflexivity.
  rewrite Z.rem_mul_r by lia.
  rewrite (Z.mul_comm (2 ^ 32) ((r / 2 ^ 32) mod 2 ^ 32)).
  rewrite Z.div_add by lia.
  rewrite (Z.div_small (r mod 2 ^ 32)) by (apply Z.mod_pos_bound; lia).
  rewrite Z.add_0_l. apply Z.mod_mod. lia.
Qed.

Lemma indexAlpha_u64 rand lanes segments threads n slice lane index :
  indexAlpha (u64 rand) lanes segments threads n slice lane index =
  indexAlpha rand lanes segments threads n slice lane index.
Proof. unfold indexAlpha, phi. rewrite land_u64, shiftr_u64. reflexivity. Qed.

Lemma model_rnd_ok mode time memory n slice : rnd_ok (model_rnd mode time memory n slice).
Proof. intros lane index b. unfold model_rnd, u64. apply Z.mod_pos_bound. lia. Qed.

(* ------------------------------------------------------------------------- *)
(* Small list facts                                                           *)
(* ------------------------------------------------------------------------- *)

Lemma indices_cons index k :
  map (fun j => index + Z.of_nat j) (seq 0 (S k)) =
  index :: map (fun j => (index + 1) + Z.of_nat j) (seq 0 k).
Proof.
  cbn [seq map]. f_equal; [cbn; lia|].
  rewrite <- seq_shift, map_map. apply map_ext. intros j. lia.
Qed.

Lemma in_indices index k x :
  In x (map (fun j => index + Z.of_nat j) (seq 0 k)) -> index <= x < index + Z.of_nat k.
Proof.
  intros H. apply in_map_iff in H. destruct H as [j [E Hj]]. apply in_seq in Hj. lia.
Qed.

(* ------------------------------------------------------------------------- *)
(* R1: one segment                                                             *)
(* ------------------------------------------------------------------------- *)

(* processSegment = the loop entered in state seg_init *)
Lemma processSegment_eq B mode version time memory lanes segments threads n slice lane :
  processSegment B mode version time memory lanes segments threads n slice lane =
  segment_loop (Z.to_nat (segments - index0 n slice)) B mode version time memory lanes segments threads n slice lane
               (indep_of mode n slice)
               (fst (seg_init mode time memory n slice lane)) (snd (seg_init mode time memory n slice lane))
               (index0 n slice) (u32 (u32 (lane * lanes) + u32 (slice * segments) + index0 n slice)).
Proof.
  unfold processSegment, seg_init, index0. cbv zeta. fold (indep_of mode n slice).
  destruct ((n =? 0) && (slice =? 0) && ((mode =? Argon2i) || (mode =? Argon2id))).
  - destruct (next_addresses _). reflexivity.
  - reflexivity.
Qed.

Section Segment.
  Variables mode version time memory lanes segments threads n slice : Z.
  Hypothesis Hparams : slice_params_ok lanes segments threads n slice.

  Lemma my_args_ok lane index rand :
    0 <= lane < threads -> index0 n slice <= index < segments ->
    index_args_ok (u64 rand) lanes segments threads n slice lane index.
  Proof.
    intros Hlane Hi.
    destruct Hparams as (Hseg & Hl & Ht & Hmem & Hn & Hs).
    assert (H0 : 0 <= index0 n slice <= 2) by (unfold index0; destruct ((n =? 0) && (slice =? 0)); lia).
    unfold index_args_ok. split; [unfold u64; apply Z.mod_pos_bound; lia|].
    repeat (split; try lia).
    intros -> ->. cbn in Hi. lia.
  Qed.

  (* the loop, started anywhere in the segment, for any rnd that agrees with the words the loop uses *)
  Lemma segment_loop_refines (rnd : Z -> Z -> block -> Z) (Hrnd_ok : rnd_ok rnd) lane (Hlane : 0 <= lane < threads) :
    forall k B st index offset,
    (k = O \/ offset = wloc lanes segments slice lane index) ->
    index0 n slice <= index -> index + Z.of_nat k <= segments ->
    threads * lanes <= Z.of_nat (length B) ->
    (forall idx b, index <= idx < index + Z.of_nat k ->
       rnd lane idx b =
       u64 (if indep_of mode n slice then addr_word_from (indep_of mode n slice) st index idx else getw b 0)) ->
    length (segment_loop k B mode version time memory lanes segments threads n slice lane
                         (indep_of mode n slice) (fst st) (snd st) index offset)
    = length B /\
    meq (abs (segment_loop k B mode version time memory lanes segments threads n slice lane
                           (indep_of mode n slice) (fst st) (snd st) index offset))
        (runs (map (argon2_step (model_G version) rnd lanes segments threads n slice lane)
                   (map (fun j => index + Z.of_nat j) (seq 0 k)))
              (abs B)).
  Proof.
    induction k as [|k IH]; intros B st index offset0 Hoff0 Hi0 Hik Hlen Hrnd.
    - split; [reflexivity | apply meq_refl].
    - destruct Hoff0 as [Hk0 | ->]; [discriminate|].
      assert (H0 : 0 <= index0 n slice <= 2) by (unfold index0; destruct ((n =? 0) && (slice =? 0)); lia).
      assert (Hidx : index0 n slice <= index < segments) by lia.
      pose proof Hparams as (Hseg & Hl & Ht & Hmem & Hn & Hs).
      destruct (offset_closed_form lanes segments threads slice lane index) as (_ & Enext & Hoff); try lia.
      fold (wloc lanes segments slice lane index) in Enext, Hoff.
      set (offset := wloc lanes segments slice lane index) in *.
      assert (Enext' : u32 (offset + 1) = wloc lanes segments slice lane (index + 1)).
      { rewrite Enext. unfold offset, wloc. lia. }
      destruct (prev_in_own_lane lanes segments threads slice lane index) as (Eprev & Hp & _); try lia.
      fold (wloc lanes segments slice lane index) in Eprev. fold offset in Eprev.
      set (prev := prevOf lanes slice index offset) in *.
      assert (Hprev : 0 <= prev).
      { rewrite Eprev. assert (0 <= lane * lanes) by (apply Z.mul_nonneg_nonneg; lia). lia. }
      destruct st as [inb addresses]. cbn [fst snd].
      rewrite segment_loop_unfold. cbv zeta. fold prev.
      pose proof (Hrnd index) as Hr0.
      unfold addr_word_from in Hr0.
      replace (index - index + 1) with 1 in Hr0 by lia.
      change (Z.to_nat 1) with 1%nat in Hr0. cbn [addr_iter] in Hr0. unfold addr_step in Hr0. cbn [fst] in Hr0.
      destruct (if indep_of mode n slice && (index mod 128 =? 0) then next_addresses inb else (inb, addresses))
        as [inb' addr'] eqn:EX.
      cbn [snd] in Hr0.
      set (random := if indep_of mode n slice then getw addr' (Z.to_nat (index mod 128)) else getw (getb B prev) 0).
      set (newOffset := indexAlpha random lanes segments threads n slice lane index).
      set (newblock := process_block (getb B offset) (getb B prev) (getb B newOffset) (negb (version =? 16))).
      (* the step computes newblock *)
      set (s := argon2_step (model_G version) rnd lanes segments threads n slice lane index).
      assert (Ef : f s (abs B) = newblock).
      { unfold s. cbn [f argon2_step]. unfold refloc, prevloc.
        fold offset. fold prev.
        rewrite (abs_nonneg B offset) by lia. rewrite (abs_nonneg B prev) by exact Hprev.
        rewrite (Hr0 (getb B prev)) by lia. fold random.
        pose proof (index_in_memory _ _ _ _ _ _ _ _ (my_args_ok lane index random Hlane Hidx)) as Hin.
        rewrite indexAlpha_u64 in Hin |- *. fold newOffset in Hin |- *.
        rewrite (abs_nonneg B newOffset) by lia. reflexivity. }
      assert (Estep : meq (abs (setb B (Z.to_nat offset) newblock)) (run s (abs B))).
      { unfold run. rewrite Ef. change (w s) with offset. apply abs_setb. lia. }
      (* the rest of the loop *)
      specialize (IH (setb B (Z.to_nat offset) newblock) (inb', addr') (index + 1) (u32 (offset + 1)) (or_intror Enext')).
      cbn [fst snd] in IH.
      destruct IH as [IHlen IHmeq]; try lia.
      { rewrite setb_length. exact Hlen. }
      { intros idx b Hidx'. rewrite (Hrnd idx b) by lia. f_equal.
        destruct (indep_of mode n slice) eqn:Eindep; [|reflexivity].
        unfold addr_word_from.
        replace (Z.to_nat (idx - index + 1)) with (S (Z.to_nat (idx - (index + 1) + 1))) by lia.
        cbn [addr_iter]. unfold addr_step. cbn [fst]. rewrite EX. reflexivity. }
      split.
      + rewrite IHlen. apply setb_length.
      + rewrite indices_cons. cbn [map]. rewrite runs_cons. fold s.
        eapply meq_trans; [exact IHmeq|].
        apply runs_meq; [|exact Estep].
        intros s' Hs'. apply in_map_iff in Hs'. destruct Hs' as [idx [<- Hin]].
        apply in_indices in Hin.
        apply (argon2_step_local (model_G version) rnd lanes segments threads n slice Hparams Hrnd_ok); lia.
  Qed.

  (* R1: processSegment refines the lane task, for data-dependent and data-independent addressing alike *)
  Theorem segment_refines (B : Argon2.mem) lane :
    0 <= lane < threads ->
    threads * lanes <= Z.of_nat (length B) ->
    length (processSegment B mode version time memory lanes segments threads n slice lane) = length B /\
    meq (abs (processSegment B mode version time memory lanes segments threads n slice lane))
        (runs (lane_task (model_G version) (model_rnd mode time memory n slice) lanes segments threads n slice lane)
              (abs B)).
  Proof.
    intros Hlane Hlen.
    pose proof Hparams as (Hseg & Hl & Ht & Hmem & Hn & Hs).
    assert (H0 : 0 <= index0 n slice <= 2) by (unfold index0; destruct ((n =? 0) && (slice =? 0)); lia).
    rewrite processSegment_eq.
    unfold lane_task, segment_indices.
    apply (segment_loop_refines (model_rnd mode time memory n slice) (model_rnd_ok mode time memory n slice) lane Hlane).
    - destruct (Z_lt_ge_dec (index0 n slice) segments) as [Hlt|Hge]; [right | left; lia].
      destruct (offset_closed_form lanes segments threads slice lane (index0 n slice)) as (Eoff & _ & _); try lia.
      exact Eoff.
    - lia.
    - lia.
    - exact Hlen.
    - intros idx b _. reflexivity.
  Qed.
End Segment.

(* ------------------------------------------------------------------------- *)
(* R2: one slice, lane after lane                                              *)
(* ------------------------------------------------------------------------- *)

Section Slice.
  Variables mode version time memory lanes segments threads n slice : Z.
  Hypothesis Hparams : slice_params_ok lanes segments threads n slice.

  Lemma lane_task_local lane s :
    0 <= lane < threads ->
    In s (lane_task (model_G version) (model_rnd mode time memory n slice) lanes segments threads n slice lane) ->
    step_local s.
  Proof.
    intros Hlane Hs.
    apply in_lane_task in Hs. destruct Hs as [index [-> Hidx]].
    apply argon2_step_local; [exact Hparams | apply model_rnd_ok | exact Hlane | exact Hidx].
  Qed.

  Lemma lanes_fold_refines : forall (l : list Z) (B : Argon2.mem),
    (forall lane, In lane l -> 0 <= lane < threads) ->
    threads * lanes <= Z.of_nat (length B) ->
    length (fold_left (fun B lane => processSegment B mode version time memory lanes segments threads n slice lane) l B)
    = length B /\
    meq (abs (fold_left (fun B lane => processSegment B mode version time memory lanes segments threads n slice lane) l B))
        (runs (concat (map (lane_task (model_G version) (model_rnd mode time memory n slice)
                                      lanes segments threads n slice) l))
              (abs B)).
  Proof.
    induction l as [|a l IH]; intros B Hl Hlen.
    - split; [reflexivity | apply meq_refl].
    - cbn [fold_left map concat]. rewrite runs_app.
      destruct (segment_refines mode version time memory lanes segments threads n slice Hparams B a) as [Elen Emeq];
        [apply Hl; left; reflexivity | exact Hlen |].
      destruct (IH (processSegment B mode version time memory lanes segments threads n slice a)) as [IHlen IHmeq].
      + intros lane Hin. apply Hl. right. exact Hin.
      + rewrite Elen. exact Hlen.
      + split; [rewrite IHlen; exact Elen|].
        eapply meq_trans; [exact IHmeq|].
        apply runs_meq; [|exact Emeq].
        intros s Hs. apply in_concat in Hs. destruct Hs as [T [HT HsT]].
        apply in_map_iff in HT. destruct HT as [lane [<- Hlane]].
        apply (lane_task_local lane s); [apply Hl; right; exact Hlane | exact HsT].
  Qed.

  (* R2 *)
  Theorem slice_refines (B : Argon2.mem) :
    threads * lanes <= Z.of_nat (length B) ->
    length (process_slice B mode version time memory lanes segments threads n slice) = length B /\
    meq (abs (process_slice B mode version time memory lanes segments threads n slice))
        (runs (concat (slice_tasks (model_G version) (model_rnd mode time memory n slice)
                                   lanes segments threads n slice))
              (abs B)).
  Proof.
    intros Hlen. unfold process_slice, slice_tasks.
    rewrite <- (map_map Z.of_nat
                  (lane_task (model_G version) (model_rnd mode time memory n slice) lanes segments threads n slice)).
    apply lanes_fold_refines; [|exact Hlen].
    intros lane Hin. apply in_map_iff in Hin. destruct Hin as [k [<- Hk]]. apply in_seq in Hk. lia.
  Qed.

  (* R3: every schedule of the goroutines of one slice computes the memory of the lane-after-lane model *)
  Theorem slice_any_schedule (B : Argon2.mem) sigma :
    threads * lanes <= Z.of_nat (length B) ->
    interleaving sigma (slice_tasks (model_G version) (model_rnd mode time memory n slice)
                                    lanes segments threads n slice) ->
    meq (runs sigma (abs B))
        (abs (process_slice B mode version time memory lanes segments threads n slice)).
  Proof.
    intros Hlen Hil.
    eapply meq_trans.
    - exact (argon2_slice_schedule_independent (model_G version) (model_rnd mode time memory n slice)
               lanes segments threads n slice Hparams (model_rnd_ok mode time memory n slice) sigma (abs B) Hil).
    - apply meq_sym. apply slice_refines. exact Hlen.
  Qed.

  (* the same, read on the list memory: block x of the result of ANY schedule is block x of the sequential model *)
  Corollary slice_any_schedule_getb (B : Argon2.mem) sigma x :
    threads * lanes <= Z.of_nat (length B) ->
    interleaving sigma (slice_tasks (model_G version) (model_rnd mode time memory n slice)
                                    lanes segments threads n slice) ->
    0 <= x ->
    runs sigma (abs B) x = getb (process_slice B mode version time memory lanes segments threads n slice) x.
  Proof.
    intros Hlen Hil Hx. rewrite (slice_any_schedule B sigma Hlen Hil x). apply abs_nonneg. exact Hx.
  Qed.
End Slice.

(* process_slice is literally the inner fold of Argon2.processBlocks *)
Lemma processBlocks_slices (B : Argon2.mem) time memory threads mode version :
  processBlocks B time memory threads mode version =
  fold_left (fun B n =>
    fold_left (fun B slice =>
                 process_slice B mode version time memory (memory / threads) (memory / threads / 4) threads n slice)
              [0; 1; 2; 3] B)
    (map Z.of_nat (seq 0 (Z.to_nat time))) B.
Proof. reflexivity. Qed.

(* ------------------------------------------------------------------------- *)
(* addr_word is the word that segment_loop uses (the content of the hypothesis of segment_loop_refines,        *)
(* stated on its own): one iteration of the loop with the random word written with addr_word_from, and the     *)
(* replay started one iteration later gives the same words                                                     *)
(* ------------------------------------------------------------------------- *)

Lemma segment_loop_step_word k B mode version time memory lanes segments threads n slice lane indep st index offset :
  segment_loop (S k) B mode version time memory lanes segments threads n slice lane indep (fst st) (snd st) index offset =
  let prev := prevOf lanes slice index offset in
  let st' := addr_step indep st index in
  let random := if indep then addr_word_from indep st index index else getw (getb B prev) 0 in
  let newOffset := indexAlpha random lanes segments threads n slice lane index in
  let newblock := process_block (getb B offset) (getb B prev) (getb B newOffset) (negb (version =? 16)) in
  segment_loop k (setb B (Z.to_nat offset) newblock) mode version time memory lanes segments threads n slice lane
               indep (fst st') (snd st') (index + 1) (u32 (offset + 1)).
Proof.
  rewrite segment_loop_unfold. cbv zeta. unfold addr_word_from.
  replace (index - index + 1) with 1 by lia. change (Z.to_nat 1) with 1%nat.
  cbn [addr_iter]. unfold addr_step. destruct st as [inb addresses]. cbn [fst snd].
  destruct (if indep && (index mod 128 =? 0) then next_addresses inb else (inb, addresses)). reflexivity.
Qed.

Lemma addr_word_from_shift indep st from idx :
  from < idx ->
  addr_word_from indep st from idx = addr_word_from indep (addr_step indep st from) (from + 1) idx.
Proof.
  intros H. unfold addr_word_from.
  replace (Z.to_nat (idx - from + 1)) with (S (Z.to_nat (idx - (from + 1) + 1))) by lia.
  reflexivity.
Qed.

Check segment_refines.
Check slice_refines.
Check slice_any_schedule.
Check slice_any_schedule_getb.
Print Assumptions indexAlpha_u64.
Print Assumptions segment_loop_refines.
Print Assumptions segment_refines.
Print Assumptions slice_refines.
Print Assumptions slice_any_schedule.
Print Assumptions slice_any_schedule_getb.
Print Assumptions processBlocks_slices.
Print Assumptions segment_loop_step_word.
Print Assumptions addr_word_from_shift.
