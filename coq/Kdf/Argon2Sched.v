(* C09, part 2 (definitions): schedules of memory steps, the Argon2 slice as a family of tasks,
   and a counter-machine model of the sync.WaitGroup discipline of argon2crypto.processBlocks.
   Theorems are in Kdf/Argon2SchedProofs.v. *)
Require Import GC.Base.Bytes GC.Kdf.Argon2 GC.Kdf.Argon2Index.

(* ------------------------------------------------------------------------- *)
(* Abstract memory and steps                                                   *)
(* ------------------------------------------------------------------------- *)

Definition block := list Z.
Definition mem := Z -> block.            (* shadows Argon2.mem (a list of blocks) in this development *)
Definition upd (m : mem) (a : Z) (v : block) : mem := fun x => if x =? a then v else m x.
(* extensional equality of memories (no functional-extensionality axiom is used) *)
Definition meq (m1 m2 : mem) : Prop := forall x, m1 x = m2 x.

(* a step writes location [w] with the value [f m] computed from the current memory;
   [reads] is its read footprint *)
Record step : Type := mkStep { w : Z; f : mem -> block; reads : Z -> Prop }.

(* [f] depends only on the locations in [reads] *)
Definition step_local (s : step) : Prop :=
  forall m m', (forall x, reads s x -> m x = m' x) -> f s m = f s m'.

Definition run (s : step) (m : mem) : mem := upd m (w s) (f s m).
Definition runs (sigma : list step) (m : mem) : mem := fold_left (fun m s => run s m) sigma m.

(* a schedule of a family of tasks: repeatedly pick the head of some non-empty task *)
Inductive interleaving : list step -> list (list step) -> Prop :=
| il_done : forall tasks, (forall t, In t tasks -> t = []) -> interleaving [] tasks
| il_pick : forall pre s t post sigma,
    interleaving sigma (pre ++ t :: post) ->
    interleaving (s :: sigma) (pre ++ (s :: t) :: post).

(* two steps that may be reordered *)
Definition steps_indep (a b : step) : Prop :=
  w a <> w b /\ ~ reads a (w b) /\ ~ reads b (w a).

(* steps of distinct tasks are independent *)
Definition tasks_indep (tasks : list (list step)) : Prop :=
  forall i j A B, i <> j -> nth_error tasks i = Some A -> nth_error tasks j = Some B ->
    forall a b, In a A -> In b B -> steps_indep a b.

Definition tasks_local (tasks : list (list step)) : Prop :=
  forall t, In t tasks -> forall s, In s t -> step_local s.

(* ------------------------------------------------------------------------- *)
(* The Argon2 slice (pass n, slice) as tasks, one per lane                      *)
(* ------------------------------------------------------------------------- *)

Section Argon2Slice.
  (* G out in1 in2: the new contents of `out` (processBlock / processBlockXOR), kept abstract;
     rnd lane index prevblock: the 64-bit pseudo-random value J1||J2 - either data-independent
     (Argon2i: a function of lane and index only) or the first word of block prev (Argon2d). *)
  Variable G : block -> block -> block -> block.
  Variable rnd : Z -> Z -> block -> Z.
  Variables lanes segments threads n slice : Z.

  Definition slice_params_ok : Prop :=
    2 <= segments /\ lanes = 4 * segments /\ 1 <= threads <= 255 /\
    threads * lanes <= 2 ^ 32 - 1 /\ 0 <= n /\ 0 <= slice < 4.
  Definition rnd_ok : Prop := forall lane index b, 0 <= rnd lane index b < 2 ^ 64.

  (* first index of a segment: blocks 0 and 1 of each lane are filled by initBlocks *)
  Definition index0 : Z := if (n =? 0) && (slice =? 0) then 2 else 0.

  Definition wloc (lane index : Z) : Z := lane * lanes + slice * segments + index.
  Definition prevloc (lane index : Z) : Z := prevOf lanes slice index (wloc lane index).
  Definition refloc (lane index : Z) (m : mem) : Z :=
    indexAlpha (rnd lane index (m (prevloc lane index))) lanes segments threads n slice lane index.

  (* the positions (lane rl, within-lane position p) that index_range / other_lane_safe / own_lane_safe allow
     as reference of block (lane, index) *)
  Definition ref_allowed (lane index rl p : Z) : Prop :=
    0 <= rl < threads /\ 0 <= p < lanes /\
    (if rl =? lane
     then p <> slice * segments + index /\
          (if n =? 0 then p < slice * segments + index
           else ~ (slice * segments + index <= p < (slice + 1) * segments))
     else (if n =? 0 then p < slice * segments
           else ~ (slice * segments <= p < (slice + 1) * segments))).

  (* read footprint: prev, the block itself (XOR variant), every allowed reference *)
  Definition footprint (lane index x : Z) : Prop :=
    x = prevloc lane index \/ x = wloc lane index \/
    exists rl p, x = rl * lanes + p /\ ref_allowed lane index rl p.

  Definition argon2_step (lane index : Z) : step :=
    {| w := wloc lane index;
       f := fun m => G (m (wloc lane index)) (m (prevloc lane index)) (m (refloc lane index m));
       reads := footprint lane index |}.

  Definition segment_indices : list Z :=
    map (fun k => index0 + Z.of_nat k) (seq 0 (Z.to_nat (segments - index0))).
  Definition lane_task (lane : Z) : list step := map (argon2_step lane) segment_indices.
  Definition slice_tasks : list (list step) :=
    map (fun l => lane_task (Z.of_nat l)) (seq 0 (Z.to_nat threads)).
End Argon2Slice.

(* ------------------------------------------------------------------------- *)
(* sync.WaitGroup discipline                                                   *)
(*   parent:  for each lane { wg.Add(1); go worker(lane) };  wg.Wait()          *)
(*   worker:  ... block computations ...; wg.Done()                            *)
(* ------------------------------------------------------------------------- *)

Inductive wg_event : Type :=
| EvAdd                    (* wg.Add(1) by the parent *)
| EvSpawn (i : nat)        (* go processSegment(..., lane i, &wg) *)
| EvWork (i : nat)         (* a step of worker i before its Done *)
| EvDone (i : nat)         (* wg.Done(), the last event of worker i *)
| EvWaitRet.               (* wg.Wait() returns *)

Record wg_state : Type := mkWg {
  cnt : Z;                 (* the WaitGroup counter *)
  pending : Z;             (* Adds of the parent not yet followed by their `go` statement *)
  spawned : list nat;
  finished : list nat;
  waited : bool }.

Definition wg_init : wg_state := mkWg 0 0 [] [] false.

Inductive wg_step : wg_state -> wg_event -> wg_state -> Prop :=
| ws_add : forall st, waited st = false ->
    wg_step st EvAdd (mkWg (cnt st + 1) (pending st + 1) (spawned st) (finished st) false)
| ws_spawn : forall st i, waited st = false -> 0 < pending st -> ~ In i (spawned st) ->
    wg_step st (EvSpawn i) (mkWg (cnt st) (pending st - 1) (i :: spawned st) (finished st) false)
| ws_work : forall st i, In i (spawned st) -> ~ In i (finished st) ->
    wg_step st (EvWork i) st
| ws_done : forall st i, In i (spawned st) -> ~ In i (finished st) ->
    wg_step st (EvDone i) (mkWg (cnt st - 1) (pending st) (spawned st) (i :: finished st) (waited st))
| ws_wait : forall st, cnt st = 0 ->          (* Wait returns only at counter 0 *)
    wg_step st EvWaitRet (mkWg (cnt st) (pending st) (spawned st) (finished st) true).

Inductive wg_steps : wg_state -> list wg_event -> wg_state -> Prop :=
| wgs_nil : forall st, wg_steps st [] st
| wgs_cons : forall st e st1 tr st2, wg_step st e st1 -> wg_steps st1 tr st2 -> wg_steps st (e :: tr) st2.

Definition valid (trace : list wg_event) : Prop := exists st, wg_steps wg_init trace st.
(* Wait returned after the events [pre] *)
Definition wait_returned (trace pre post : list wg_event) : Prop := trace = pre ++ EvWaitRet :: post.
