(* C05 for bcrypt/bcrypt.go: the slice expressions and buffer writes of Key / encode / setup never go out of range.

   What was already there: Kdf/Bcrypt.v models encode with CHECKED slices (KdfBase.sl) and Kdf/BcryptProofs.v proves
   bcrypt_impl_spec / bcrypt_derive_length / bcrypt_derive_none: derive is None exactly when blowfish.NewSaltedCipher
   rejects the key (an error return, not a panic).  So for encode the "no index out of range" half of C05 already
   follows from those theorems (restated below as bcrypt_derive_total).

   What is added here:
     - the model of Bcrypt.v slices the three blocks out of the ORIGINAL magic string, whereas the Go code works IN
       PLACE in one 24-byte buffer (c.Encrypt(b[i:i+8], b[i:i+8]), 64 times per block, then b[:23]).  encode_buf_chk is
       the literal in-place version with checked slice reads and checked 8-byte writes; it equals encrypt_blocks;
     - password[:72] ($2b$, n > 72) and key[:len(key):len(key)] in setup are in range;
     - the 22-symbol salt decodes to exactly DecodedLen(22) = 16 bytes, the size of decSalt.
   Hypothesis: bf_encrypt returns as many bytes as it is given (Blowfish: one 8-byte block), as in BcryptProofs.v.
   No hypothesis on key, salt or cost. *)
Require Import GC.Base.Bytes GC.Kdf.KdfBase GC.Kdf.KdfBaseProofs GC.Kdf.SafeBase GC.Schemes.Encoders GC.Kdf.Bcrypt
  GC.Kdf.BcryptProofs.

Arguments Z.add : simpl never.
Arguments Z.sub : simpl never.
Arguments Z.of_nat : simpl never.
Arguments Z.to_nat : simpl never.

(* copy(b[i:], blk): panics (slice bounds) unless 0 <= i and i + len(blk) <= len(b) *)
Definition put_chk (b : bytes) (i : Z) (blk : bytes) : option bytes :=
  if (0 <=? i) && (i + lenZ blk <=? lenZ b)
  then Some (firstn (Z.to_nat i) b ++ blk ++ skipn (Z.to_nat (i + lenZ blk)) b) else None.

Fixpoint oiter {A} (n : nat) (f : A -> option A) (x : A) : option A :=
  match n with O => Some x | S k => do y <- f x; oiter k f y end.

Section B.
Variable C : Type.
Variable bf_new : bytes -> bytes -> option C.
Variable bf_expand : bytes -> C -> C.
Variable bf_encrypt : C -> bytes -> bytes.
Variable alphabet : bytes.
Hypothesis bf_len : forall c b, length (bf_encrypt c b) = length b.

(* c.Encrypt(b[i:i+8], b[i:i+8]) on the buffer b *)
Definition enc_inplace (c : C) (i : Z) (b : bytes) : option bytes :=
  do blk <- sl b i (i + 8); put_chk b i (bf_encrypt c blk).

(* for i := 0; i < 24; i += 8 { for j := 0; j < 64; j++ { c.Encrypt(b[i:i+8], b[i:i+8]) } }; return b[:23] *)
Definition encode_buf_chk (c : C) (b : bytes) : option bytes :=
  do b1 <- oiter 64 (enc_inplace c 0) b;
  do b2 <- oiter 64 (enc_inplace c 8) b1;
  do b3 <- oiter 64 (enc_inplace c 16) b2;
  sl b3 0 23.

Lemma sl_mid : forall p blk q : bytes, sl (p ++ blk ++ q) (lenZ p) (lenZ p + lenZ blk) = Some blk.
Proof.
  intros p blk q. unfold sl, lenZ. rewrite !app_length.
  destruct (Z.leb_spec 0 (Z.of_nat (length p))); try lia.
  destruct (Z.leb_spec (Z.of_nat (length p)) (Z.of_nat (length p) + Z.of_nat (length blk))); try lia.
  destruct (Z.leb_spec (Z.of_nat (length p) + Z.of_nat (length blk))
                       (Z.of_nat (length p + (length blk + length q)))); try lia.
  cbn [andb]. f_equal. rewrite Nat2Z.id.
  replace (Z.to_nat (Z.of_nat (length p) + Z.of_nat (length blk) - Z.of_nat (length p))) with (length blk) by lia.
  rewrite skipn_app, skipn_all, Nat.sub_diag. cbn [skipn app].
  rewrite firstn_app, firstn_all, Nat.sub_diag. cbn [firstn]. now rewrite app_nil_r.
Qed.

Lemma put_mid : forall p blk q blk' : bytes, length blk' = length blk ->
  put_chk (p ++ blk ++ q) (lenZ p) blk' = Some (p ++ blk' ++ q).
Proof.
  intros p blk q blk' L. unfold put_chk, lenZ. rewrite !app_length.
  destruct (Z.leb_spec 0 (Z.of_nat (length p))); try lia.
  destruct (Z.leb_spec (Z.of_nat (length p) + Z.of_nat (length blk'))
                       (Z.of_nat (length p + (length blk + length q)))); try lia.
  cbn [andb]. f_equal. rewrite Nat2Z.id.
  replace (Z.to_nat (Z.of_nat (length p) + Z.of_nat (length blk'))) with (length p + length blk)%nat by lia.
  rewrite firstn_app, firstn_all, Nat.sub_diag. cbn [firstn]. rewrite app_nil_r. f_equal. f_equal.
  rewrite skipn_app, skipn_all2 by lia. cbn [app].
  replace (length p + length blk - length p)%nat with (length blk) by lia.
  rewrite skipn_app, skipn_all, Nat.sub_diag. reflexivity.
Qed.

Lemma iter_len : forall c n b, length (iter n (bf_encrypt c) b) = length b.
Proof. intros; now apply iter_length. Qed.

Lemma oiter_inplace : forall c n p blk q i, length blk = 8%nat -> i = lenZ p ->
  oiter n (enc_inplace c i) (p ++ blk ++ q) = Some (p ++ iter n (bf_encrypt c) blk ++ q).
Proof.
  intros c n; induction n as [|n IH]; intros p blk q i L ->; [reflexivity|].
  cbn [oiter]. unfold enc_inplace at 1.
  replace (lenZ p + 8) with (lenZ p + lenZ blk) by (unfold lenZ; lia).
  rewrite sl_mid. cbn [obind]. rewrite put_mid by apply bf_len. cbn [obind].
  rewrite IH by (try reflexivity; now rewrite bf_len). reflexivity.
Qed.

(* the in-place buffer version = the block-wise model, for every 24-byte buffer given as three 8-byte blocks *)
Theorem encode_buf_chk_ok : forall c b0 b1 b2, length b0 = 8%nat -> length b1 = 8%nat -> length b2 = 8%nat ->
  encode_buf_chk c (b0 ++ b1 ++ b2) = Bcrypt.encrypt_blocks C bf_encrypt c (b0 ++ b1 ++ b2)
  /\ exists k, encode_buf_chk c (b0 ++ b1 ++ b2) = Some k /\ length k = 23%nat.
Proof.
  intros c b0 b1 b2 L0 L1 L2.
  set (e := iter 64 (bf_encrypt c)).
  assert (E : encode_buf_chk c (b0 ++ b1 ++ b2) = sl (e b0 ++ e b1 ++ e b2) 0 23).
  { unfold encode_buf_chk.
    pose proof (oiter_inplace c 64 [] b0 (b1 ++ b2) 0 L0 eq_refl) as X. cbn [app] in X. rewrite X; clear X.
    cbn [obind]. fold e.
    rewrite (oiter_inplace c 64 (e b0) b1 b2 8) by (try assumption; unfold lenZ, e; rewrite iter_len; lia).
    cbn [obind]. fold e.
    replace (e b0 ++ e b1 ++ b2) with ((e b0 ++ e b1) ++ b2 ++ []) by (now rewrite <- app_assoc, app_nil_r).
    rewrite (oiter_inplace c 64 (e b0 ++ e b1) b2 [] 16)
      by (try assumption; unfold lenZ, e; rewrite app_length, !iter_len; lia).
    cbn [obind]. fold e. now rewrite app_nil_r, <- app_assoc. }
  assert (S0 : sl (b0 ++ b1 ++ b2) 0 8 = Some b0).
  { pose proof (sl_mid [] b0 (b1 ++ b2)) as X. unfold lenZ in X. cbn [length app] in X. rewrite L0 in X. exact X. }
  assert (S1 : sl (b0 ++ b1 ++ b2) 8 16 = Some b1).
  { pose proof (sl_mid b0 b1 b2) as X. unfold lenZ in X. rewrite L0, L1 in X. exact X. }
  assert (S2 : sl (b0 ++ b1 ++ b2) 16 24 = Some b2).
  { pose proof (sl_mid (b0 ++ b1) b2 []) as X. unfold lenZ in X. rewrite app_length, L0, L1, L2 in X.
    rewrite app_nil_r, <- app_assoc in X. exact X. }
  split.
  - rewrite E. unfold encrypt_blocks. rewrite S0, S1, S2. cbn [obind]. reflexivity.
  - rewrite E. rewrite sl_prefix by (unfold lenZ, e; rewrite !app_length, !iter_len; lia).
    eexists; split; [reflexivity|]. rewrite firstn_length, !app_length. unfold e. rewrite !iter_len. lia.
Qed.

(* the case bcrypt uses: the buffer initialised with "OrpheanBeholderScryDoubt" *)
Corollary encode_buf_magic : forall c,
  encode_buf_chk c magic = Bcrypt.encrypt_blocks C bf_encrypt c magic
  /\ exists k, encode_buf_chk c magic = Some k /\ length k = 23%nat.
Proof.
  intros c. change magic with (firstn 8 magic ++ firstn 8 (skipn 8 magic) ++ skipn 16 magic).
  apply encode_buf_chk_ok; reflexivity.
Qed.

(* encode + setup with the in-place buffer *)
Definition derive_buf_chk (key salt22 : bytes) (cost : Z) : option bytes :=
  let dec := be64_decode alphabet salt22 in
  match Bcrypt.setup C bf_new bf_expand key dec cost with
  | Some c => encode_buf_chk c magic
  | None => None
  end.

Theorem derive_buf_chk_ok : forall key salt22 cost,
  derive_buf_chk key salt22 cost = Bcrypt.derive C bf_new bf_expand bf_encrypt alphabet key salt22 cost.
Proof.
  intros. unfold derive_buf_chk, derive. destruct (setup _ _ _ _ _ _); [|reflexivity].
  apply encode_buf_magic.
Qed.

(* for EVERY key, salt and cost: either NewSaltedCipher rejects the key (error return), or the derivation runs through
   all of its slices and yields 23 bytes.  From bcrypt_derive_none / bcrypt_derive_length (BcryptProofs.v). *)
Theorem bcrypt_derive_total : forall key salt22 cost,
  (bf_new key (be64_decode alphabet salt22) = None /\
   Bcrypt.derive C bf_new bf_expand bf_encrypt alphabet key salt22 cost = None)
  \/ (exists c0 k, bf_new key (be64_decode alphabet salt22) = Some c0 /\
        Bcrypt.derive C bf_new bf_expand bf_encrypt alphabet key salt22 cost = Some k /\
        derive_buf_chk key salt22 cost = Some k /\ length k = 23%nat).
Proof.
  intros key salt22 cost.
  destruct (bf_new key (be64_decode alphabet salt22)) as [c0|] eqn:E.
  - right. destruct (derive C bf_new bf_expand bf_encrypt alphabet key salt22 cost) as [k|] eqn:D.
    + exists c0, k. repeat split; try assumption.
      * now rewrite derive_buf_chk_ok.
      * eapply bcrypt_derive_length; eassumption.
    + apply bcrypt_derive_none in D; [congruence | assumption].
  - left. split; [reflexivity|]. apply bcrypt_derive_none; assumption.
Qed.
End B.

(* ---------------------------------------------------------------- Key: password[:72] and setup: key[:len(key):len(key)] *)
(* n := len(password); if prefix == 2b && n > 72 { password = password[:72] } else if n >= 254 { 72 x '0' } *)
Definition pw_rewrite_chk (is2b : bool) (pw : bytes) : option bytes :=
  let n := lenZ pw in
  if is2b && (72 <? n) then sl pw 0 72
  else if 254 <=? n then Some (repeat 48 72) else Some pw.

Theorem pw_rewrite_chk_ok : forall is2b pw,
  pw_rewrite_chk is2b pw
  = Some (if is2b && (72 <? lenZ pw) then firstn 72 pw else if 254 <=? lenZ pw then repeat 48 72 else pw).
Proof.
  intros is2b pw. unfold pw_rewrite_chk. cbv zeta.
  destruct is2b; cbn [andb]; [|destruct (254 <=? lenZ pw); reflexivity].
  destruct (Z.ltb_spec 72 (lenZ pw)); [|destruct (254 <=? lenZ pw); reflexivity].
  rewrite sl_prefix by lia. reflexivity.
Qed.

(* under $2b$ the rewritten password has at most 72 bytes *)
Lemma pw_rewrite_len : forall pw k, pw_rewrite_chk true pw = Some k -> (length k <= 72)%nat.
Proof.
  intros pw k. rewrite pw_rewrite_chk_ok. cbn [andb].
  match goal with |- Some ?x = _ -> _ => remember x as v eqn:Ev end. intros [= <-]. subst v.
  destruct (Z.ltb_spec 72 (lenZ pw)); [|destruct (Z.leb_spec 254 (lenZ pw))].
  - rewrite firstn_length. lia.
  - rewrite repeat_length. lia.
  - unfold lenZ in *. lia.
Qed.

(* key = append(key[:len(key):len(key)], 0): the full slice expression is in range, and the result is key ++ [0] *)
Theorem setup_key_slice : forall key, sl key 0 (lenZ key) = Some key.
Proof. intros. now apply sl_full. Qed.

(* decSalt := make([]byte, Encoding.DecodedLen(22)) has 16 bytes and the 22 symbols decode to exactly 16 *)
Theorem be64_decode_22 : forall alpha s, length s = 22%nat -> length (be64_decode alpha s) = 16%nat.
Proof.
  intros alpha s L.
  do 23 (destruct s as [|? s]; [discriminate L || reflexivity|]). discriminate L.
Qed.

(* ---------------------------------------------------------------- not vacuous *)
(* with a block function that returns too many bytes the checked code does fail (the write-back at i = 16 runs past the
   24-byte buffer), so the length hypothesis is needed; BcryptProofs.v has the too-few-bytes counterexample *)
Lemma encode_buf_chk_detects :
  encode_buf_chk unit (fun _ b => b ++ [0]) tt magic = None /\
  (exists k, encode_buf_chk unit (fun _ b => rev b) tt magic = Some k /\ length k = 23%nat) /\
  put_chk magic 17 (repeat 0 8) = None /\ sl magic 17 25 = None.
Proof. vm_compute. repeat apply conj; try reflexivity. eexists; split; reflexivity. Qed.

Check encode_buf_chk_ok.
Check encode_buf_magic.
Check derive_buf_chk_ok.
Check bcrypt_derive_total.
Check pw_rewrite_chk_ok.
Check setup_key_slice.
Check be64_decode_22.

Print Assumptions encode_buf_chk_ok.
Print Assumptions encode_buf_magic.
Print Assumptions derive_buf_chk_ok.
Print Assumptions bcrypt_derive_total.
Print Assumptions pw_rewrite_chk_ok.
Print Assumptions setup_key_slice.
Print Assumptions be64_decode_22.
Print Assumptions encode_buf_chk_detects.
