(* C05 for des/descrypt/des.go and desext.key: every table / slice index of the DES control code is in range.
   CHECKED variants of the definitions of Kdf/DesCrypt.v (None = Go would panic with index out of range), and
   X_chk ... = Some (X ...) for the committed tables and every argument.

   Argument ranges needed (and no others):
     - Encrypt, keySchedules, permute816/1616, the spe lookups: NONE.  Every index is x & 0x0F or x & 0x3F, which is
       in 0..15 / 0..63 for every integer x, so key, input, salt and rounds are unconstrained (the theorems hold for
       all of Z, a fortiori for uint64 / uint32).  Only the table SHAPES matter (Go fixes them in the array types;
       here they are checked on the committed copies by vm_compute).
     - Key, desext.key: NONE (password[i] is guarded by i < len(password); the slice bounds are min-clamped).
     - EncodeInt: NONE (the index is x & 0x3F < 64 = len(encoder)).
     - DecodeInt: the (at most four) bytes read are in 0..255, because decodeMap is a [256]byte indexed by b[i].
       That is Go's byte type; outside it the checked lookup does fail (decode_int_chk_tight below). *)
Require Import GC.Base.Bytes GC.Kdf.KdfBase GC.Kdf.KdfBaseProofs GC.Kdf.SafeBase GC.Kdf.DesCrypt GC.Kdf.DesTables
  GC.Schemes.Consts.
Require GC.Codec.Codec.

Arguments Z.add : simpl never.
Arguments Z.sub : simpl never.
Arguments Z.mul : simpl never.
Arguments Z.of_nat : simpl never.
Arguments Z.shiftr : simpl never.
Arguments Z.shiftl : simpl never.
Arguments Z.land : simpl never.
Arguments Z.lor : simpl never.
Arguments Z.lxor : simpl never.
Arguments Z.to_nat : simpl never.
Arguments Z.min : simpl never.

Section D.
Variable ie3264 cf6464 spe : list (list Z).
Variable pcxRot : list (list (list Z) * list (list Z)).
Variable ksMask : Z.
Variable hash_decode hash_encode : bytes.

(* ---------------------------------------------------------------- checked definitions *)

(* for _, r := range p { v |= r[c&0x0F]; c >>= 4 } *)
Fixpoint permute_tab_chk (p : list (list Z)) (c v : Z) : option Z :=
  match p with
  | [] => Some v
  | r :: rest => do x <- idx_chk r (Z.land c 15); permute_tab_chk rest (Z.shiftr c 4) (Z.lor v x)
  end.
Definition permute816_chk (c : Z) := permute_tab_chk ie3264 c 0.
Definition permute1616_chk (p : list (list Z)) (c : Z) := permute_tab_chk p c 0.

(* keySchedules: for i, p := range pcxRot { ...; b[i][0] = ...; b[i][1] = ... } with b a [8][2]uint64 *)
Fixpoint key_schedules_chk (pcx : list (list (list Z) * list (list Z))) (i : Z) (ksOdd : Z) : option (list (Z * Z)) :=
  match pcx with
  | [] => Some []
  | (pEven, pOdd) :: rest =>
    do ksEven <- permute1616_chk pEven ksOdd;
    do ksOdd' <- permute1616_chk pOdd ksEven;
    if (0 <=? i) && (i <? 8)                                   (* b[i] *)
    then do tl <- key_schedules_chk rest (i + 1) ksOdd';
         Some ((Z.land ksEven ksMask, Z.land ksOdd' ksMask) :: tl)
    else None
  end.

(* spe[k][(b >> (58 - 8k)) & 0x3F] for k = 0..7 *)
Definition spe_mix_chk (b : Z) : option Z :=
  do xs <- oseq (map (fun k => do row <- nth_error spe k;
                              idx_chk row (Z.land (Z.shiftr b (58 - 8 * Z.of_nat k)) 63)) (seq 0 8));
  Some (fold_left Z.lxor xs 0).

Fixpoint feistel_chk (kss : list (Z * Z)) (salt l r : Z) : option (Z * Z) :=
  match kss with
  | [] => Some (l, r)
  | (ksEven, ksOdd) :: rest =>
    let k := Z.land (Z.lxor (Z.shiftr r 32) r) salt in
    let b := Z.lxor (Z.lxor (Z.lxor (u64 (Z.shiftl k 32)) k) r) ksEven in
    do m <- spe_mix_chk b;
    let l' := Z.lxor l m in
    let k2 := Z.land (Z.lxor (Z.shiftr l' 32) l') salt in
    let b2 := Z.lxor (Z.lxor (Z.lxor (u64 (Z.shiftl k2 32)) k2) l') ksOdd in
    do m2 <- spe_mix_chk b2;
    let r' := Z.lxor r m2 in
    feistel_chk rest salt l' r'
  end.

Fixpoint des_rounds_chk (n : nat) (kss : list (Z * Z)) (salt l r : Z) : option (Z * Z) :=
  match n with
  | O => Some (l, r)
  | S n' => do lr <- feistel_chk kss salt l r; des_rounds_chk n' kss salt (snd lr) (fst lr)
  end.

Definition Encrypt_chk (key input salt rounds : Z) : option Z :=
  do kss <- key_schedules_chk pcxRot 0 key;
  let salt' := u32 (Z.lor (Z.lor (Z.lor (u32 (Z.shiftl (Z.land salt 63) 26)) (u32 (Z.shiftl (Z.land salt 4032) 12)))
                                 (Z.shiftr (Z.land salt 258048) 2)) (Z.shiftr (Z.land salt 16515072) 16)) in
  do lr0 <- (if input =? 0 then Some (0, 0)
             else do a <- permute816_chk (Z.lor (Z.land (Z.shiftr input 31) 2863311530) (Z.land input 1431655765));
                  do b <- permute816_chk (Z.lor (Z.land (Z.shiftr input 32) 2863311530)
                                                (Z.land (Z.shiftr input 1) 1431655765));
                  Some (a, b));
  do lr <- des_rounds_chk (Z.to_nat rounds) kss salt' (fst lr0) (snd lr0);
  let l := fst lr in let r := snd lr in
  let c := Z.lor (Z.lor (Z.lor (Z.land (Z.shiftr l 3) 1085102592318504960)
                               (Z.land (u64 (Z.shiftl l 33)) 17361641477096079360))
                        (Z.land (Z.shiftr r 35) 252645135))
                 (Z.land (u64 (Z.shiftl r 1)) 4042322160) in
  permute1616_chk cf6464 c.

(* Key: for i := 0; i < len(password) && i < 8; i++ { v += uint64(password[i]&0x7F) << uint(57-i*8) }
   INDEX-based: password[i] is a checked lookup; fuel 8 is the "i < 8" guard *)
Fixpoint des_key_idx (pw : bytes) (i : Z) (fuel : nat) : option Z :=
  match fuel with
  | O => Some 0
  | S f => if i <? lenZ pw
           then do c <- idx_chk pw i;
                do rest <- des_key_idx pw (i + 1) f;
                Some (u64 (Z.shiftl (Z.land c 127) (57 - i * 8) + rest))
           else Some 0
  end.
Definition Key_chk (pw : bytes) : option Z := des_key_idx pw 0 8.

(* DecodeInt: v += uint32(decodeMap[b[i]]) << uint(i*6): two lookups, b[i] and decodeMap[.] *)
Fixpoint decode_int_idx (b : bytes) (i : Z) (fuel : nat) : option Z :=
  match fuel with
  | O => Some 0
  | S f => if i <? lenZ b
           then do c <- idx_chk b i;
                do d <- idx_chk hash_decode c;
                do rest <- decode_int_idx b (i + 1) f;
                Some (u32 (Z.shiftl d (6 * i) + rest))
           else Some 0
  end.
Definition DecodeInt_chk (b : bytes) : option Z := decode_int_idx b 0 4.

(* desext.key:  keyValue := Key(password[:min(len, 8)])
                for i := 8; i < len(password); i += 8 { t := Key(password[i:min(i+8, len)]); keyValue = Encrypt(..) ^ t }
   with CHECKED slice expressions (KdfBase.sl) *)
Fixpoint ext_key_loop_chk (fuel : nat) (pw : bytes) (i : Z) (kv : Z) : option Z :=
  match fuel with
  | O => Some kv
  | S f => if i <? lenZ pw
           then do blk <- sl pw i (Z.min (i + 8) (lenZ pw));
                do t <- Key_chk blk;
                do e <- Encrypt_chk kv kv 0 1;
                ext_key_loop_chk f pw (i + 8) (Z.lxor e t)
           else Some kv
  end.
Definition ext_key_chk (pw : bytes) : option Z :=
  do b0 <- sl pw 0 (Z.min (lenZ pw) 8);
  do k0 <- Key_chk b0;
  ext_key_loop_chk (length pw) pw 8 k0.

Definition des_derive_chk (pw salt : bytes) : option bytes :=
  do k <- Key_chk pw; do s <- DecodeInt_chk salt; do e <- Encrypt_chk k 0 s 25; Some (be8 e).
Definition desext_derive_chk (pw salt : bytes) (rounds : Z) : option bytes :=
  do k <- ext_key_chk pw; do s <- DecodeInt_chk salt; do e <- Encrypt_chk k 0 s rounds; Some (be8 e).

(* ---------------------------------------------------------------- table shapes *)
Definition rows16 (p : list (list Z)) : Prop := Forall (fun r => length r = 16%nat) p.

Record shapes : Prop := {
  sh_ie : rows16 ie3264;                                              (* [8][16]uint64: row count is irrelevant *)
  sh_cf : rows16 cf6464;                                              (* [16][16]uint64 *)
  sh_spe_rows : length spe = 8%nat;                                   (* [8][64]uint64 *)
  sh_spe_cols : Forall (fun r => length r = 64%nat) spe;
  sh_pcx_len : (length pcxRot <= 8)%nat;                              (* [8][2][16][16]uint64, b is [8][2]uint64 *)
  sh_pcx : Forall (fun eo => rows16 (fst eo) /\ rows16 (snd eo)) pcxRot;
}.
Definition decode_shape : Prop := length hash_decode = 256%nat.      (* decodeMap [256]byte *)

(* ---------------------------------------------------------------- proofs *)
Lemma permute_tab_chk_ok : forall p c v, rows16 p -> permute_tab_chk p c v = Some (permute_tab p c v).
Proof.
  intros p; induction p as [|r rest IH]; intros c v Hp; [reflexivity|].
  inversion Hp as [|? ? Hr Hrest]; subst. cbn [permute_tab_chk permute_tab].
  rewrite idx_chk_some by (rewrite Hr; pose proof (land_15_range c); lia).
  cbn [obind]. unfold nthz. now apply IH.
Qed.

Lemma permute816_chk_ok : forall c, rows16 ie3264 -> permute816_chk c = Some (permute816 ie3264 c).
Proof. intros; now apply permute_tab_chk_ok. Qed.
Lemma permute1616_chk_ok : forall p c, rows16 p -> permute1616_chk p c = Some (permute1616 p c).
Proof. intros; now apply permute_tab_chk_ok. Qed.

Lemma key_schedules_chk_ok : forall pcx i ksOdd,
  Forall (fun eo => rows16 (fst eo) /\ rows16 (snd eo)) pcx -> 0 <= i -> i + Z.of_nat (length pcx) <= 8 ->
  key_schedules_chk pcx i ksOdd = Some (key_schedules ksMask pcx ksOdd).
Proof.
  intros pcx; induction pcx as [|[pe po] rest IH]; intros i ksOdd Hp Hi Hl; [reflexivity|].
  inversion Hp as [|? ? [He Ho] Hrest]; subst. cbn [fst snd] in He, Ho. cbn [length] in Hl.
  cbn [key_schedules_chk key_schedules].
  rewrite permute1616_chk_ok by assumption. cbn [obind].
  rewrite permute1616_chk_ok by assumption. cbn [obind].
  destruct (Z.leb_spec 0 i); try lia. destruct (Z.ltb_spec i 8); try lia. cbn [andb].
  rewrite IH by (try assumption; lia). reflexivity.
Qed.

Lemma spe_mix_chk_ok : forall b, length spe = 8%nat -> Forall (fun r => length r = 64%nat) spe ->
  spe_mix_chk b = Some (spe_mix spe b).
Proof.
  intros b Hr Hc. unfold spe_mix_chk, spe_mix.
  rewrite (oseq_map_some _ _ _ (fun k => nthz (nth k spe []) (Z.land (Z.shiftr b (58 - 8 * Z.of_nat k)) 63))).
  - reflexivity.
  - intros k Hk. apply in_seq in Hk.
    rewrite (nth_error_some_nth _ spe k []) by lia. cbn [obind].
    assert (L : length (nth k spe []) = 64%nat).
    { rewrite Forall_forall in Hc. apply Hc. apply nth_In. lia. }
    rewrite idx_chk_some; [reflexivity|].
    rewrite L. pose proof (land_63_range (Z.shiftr b (58 - 8 * Z.of_nat k))). lia.
Qed.

Lemma feistel_chk_ok : forall kss salt l r, length spe = 8%nat -> Forall (fun r => length r = 64%nat) spe ->
  feistel_chk kss salt l r = Some (feistel spe kss salt l r).
Proof.
  intros kss; induction kss as [|[ke ko] rest IH]; intros salt l r Hr Hc; [reflexivity|].
  cbn [feistel_chk feistel]. cbv zeta.
  rewrite spe_mix_chk_ok by assumption. cbn [obind].
  rewrite spe_mix_chk_ok by assumption. cbn [obind].
  now apply IH.
Qed.

Lemma des_rounds_chk_ok : forall n kss salt l r, length spe = 8%nat -> Forall (fun r => length r = 64%nat) spe ->
  des_rounds_chk n kss salt l r = Some (des_rounds spe n kss salt l r).
Proof.
  intros n; induction n as [|n IH]; intros kss salt l r Hr Hc; [reflexivity|].
  cbn [des_rounds_chk des_rounds]. rewrite feistel_chk_ok by assumption. cbn [obind].
  destruct (feistel spe kss salt l r) as [l' r']. cbn [fst snd]. now apply IH.
Qed.

(* (1a) Encrypt: for EVERY key, input, salt and round count *)
Theorem Encrypt_chk_ok : shapes -> forall key input salt rounds,
  Encrypt_chk key input salt rounds = Some (Encrypt ie3264 cf6464 spe pcxRot ksMask key input salt rounds).
Proof.
  intros [Hie Hcf Hsr Hsc Hpl Hp] key input salt rounds. unfold Encrypt_chk, Encrypt.
  rewrite key_schedules_chk_ok by (try assumption; lia). cbn [obind]. cbv zeta.
  destruct (input =? 0).
  - cbn [obind fst snd]. rewrite des_rounds_chk_ok by assumption. cbn [obind].
    destruct (des_rounds _ _ _ _ _ _) as [l r]. cbn [fst snd]. now apply permute1616_chk_ok.
  - rewrite !permute816_chk_ok by assumption. cbn [obind fst snd].
    rewrite des_rounds_chk_ok by assumption. cbn [obind].
    destruct (des_rounds _ _ _ _ _ _) as [l r]. cbn [fst snd]. now apply permute1616_chk_ok.
Qed.

(* (1b) Key: password[i] is always in range, for every password *)
Lemma des_key_idx_ok : forall fuel pw i, 0 <= i ->
  des_key_idx pw i fuel = Some (des_key_from (skipn (Z.to_nat i) pw) i fuel).
Proof.
  intros fuel; induction fuel as [|f IH]; intros pw i Hi; [now destruct (skipn (Z.to_nat i) pw)|].
  cbn [des_key_idx]. unfold lenZ. destruct (Z.ltb_spec i (Z.of_nat (length pw))) as [Hlt|Hge].
  - rewrite idx_chk_some by lia. cbn [obind]. rewrite IH by lia. cbn [obind].
    rewrite (skipn_cons_nth pw (Z.to_nat i)) by lia. cbn [des_key_from].
    replace (Z.to_nat (i + 1)) with (S (Z.to_nat i)) by lia. reflexivity.
  - rewrite skipn_past by lia. reflexivity.
Qed.

Theorem Key_chk_ok : forall pw, Key_chk pw = Some (Key pw).
Proof. intros pw. unfold Key_chk, Key. now rewrite des_key_idx_ok by lia. Qed.

(* (1c) DecodeInt: b[i] always in range; decodeMap[b[i]] in range when the byte read is a byte *)
Definition is_byte (c : Z) : Prop := 0 <= c < 256.

Lemma decode_int_idx_ok : forall fuel b i, decode_shape -> 0 <= i ->
  Forall is_byte (firstn fuel (skipn (Z.to_nat i) b)) ->
  decode_int_idx b i fuel = Some (decode_int_from hash_decode (skipn (Z.to_nat i) b) i fuel).
Proof.
  intros fuel; induction fuel as [|f IH]; intros b i Hd Hi Hb; [now destruct (skipn (Z.to_nat i) b)|].
  cbn [decode_int_idx]. unfold lenZ. destruct (Z.ltb_spec i (Z.of_nat (length b))) as [Hlt|Hge].
  - rewrite (skipn_cons_nth b (Z.to_nat i)) in Hb |- * by lia. cbn [firstn] in Hb.
    pose proof (Forall_inv Hb) as Hc. pose proof (Forall_inv_tail Hb) as Hrest.
    rewrite idx_chk_some by lia. cbn [obind].
    rewrite idx_chk_some by (unfold is_byte in Hc; rewrite Hd; lia). cbn [obind].
    replace (S (Z.to_nat i)) with (Z.to_nat (i + 1)) in * by lia.
    rewrite IH by (try assumption; lia). cbn [obind decode_int_from]. reflexivity.
  - rewrite skipn_past by lia. reflexivity.
Qed.

Theorem DecodeInt_chk_ok : decode_shape -> forall b, Forall is_byte (firstn 4 b) ->
  DecodeInt_chk b = Some (DecodeInt hash_decode b).
Proof. intros Hd b Hb. unfold DecodeInt_chk, DecodeInt. now rewrite decode_int_idx_ok by (try assumption; lia). Qed.

Lemma Forall_firstn : forall (P : Z -> Prop) n l, Forall P l -> Forall P (firstn n l).
Proof.
  intros P n; induction n as [|n IH]; intros l Hl; [constructor|].
  destruct Hl; [constructor|]. cbn [firstn]. constructor; auto.
Qed.

Corollary DecodeInt_chk_bytes : decode_shape -> forall b, Forall is_byte b ->
  DecodeInt_chk b = Some (DecodeInt hash_decode b).
Proof. intros Hd b Hb. apply DecodeInt_chk_ok; [assumption|]. now apply Forall_firstn. Qed.

(* (1d) desext.key: both slice expressions and everything below them *)
Lemma firstn_min8 : forall (l : bytes) n, n = Nat.min 8 (length l) -> firstn n l = firstn 8 l.
Proof.
  intros l n ->. destruct (Nat.le_gt_cases 8 (length l)).
  - now rewrite Nat.min_l by assumption.
  - rewrite Nat.min_r by lia. rewrite firstn_all. symmetry. apply firstn_all2. lia.
Qed.

Lemma sl_block : forall pw i, 0 <= i <= lenZ pw ->
  sl pw i (Z.min (i + 8) (lenZ pw)) = Some (firstn 8 (skipn (Z.to_nat i) pw)).
Proof.
  intros pw i Hi. unfold sl, lenZ in *.
  destruct (Z.leb_spec 0 i); try lia.
  destruct (Z.leb_spec i (Z.min (i + 8) (Z.of_nat (length pw)))); try lia.
  destruct (Z.leb_spec (Z.min (i + 8) (Z.of_nat (length pw))) (Z.of_nat (length pw))); try lia.
  cbn [andb]. f_equal. apply firstn_min8. rewrite skipn_length. lia.
Qed.

Lemma ext_key_loop_chk_ok : shapes -> forall fuel pw i kv, 0 <= i ->
  ext_key_loop_chk fuel pw i kv
  = Some (ext_key_loop ie3264 cf6464 spe pcxRot ksMask fuel (skipn (Z.to_nat i) pw) kv).
Proof.
  intros Hs fuel; induction fuel as [|f IH]; intros pw i kv Hi; [reflexivity|].
  cbn [ext_key_loop_chk ext_key_loop]. unfold lenZ.
  destruct (Z.ltb_spec i (Z.of_nat (length pw))) as [Hlt|Hge].
  - fold (lenZ pw). rewrite sl_block by (unfold lenZ; lia). cbn [obind].
    rewrite Key_chk_ok. cbn [obind]. rewrite Encrypt_chk_ok by assumption. cbn [obind].
    rewrite IH by lia.
    replace (Z.to_nat (i + 8)) with (Z.to_nat i + 8)%nat by lia. rewrite <- skipn_skipn.
    rewrite (skipn_cons_nth pw (Z.to_nat i)) at 3 by lia. reflexivity.
  - rewrite skipn_past by lia. reflexivity.
Qed.

Theorem ext_key_chk_ok : shapes -> forall pw,
  ext_key_chk pw = Some (ext_key ie3264 cf6464 spe pcxRot ksMask pw).
Proof.
  intros Hs pw. unfold ext_key_chk, ext_key.
  pose proof (sl_block pw 0 ltac:(unfold lenZ; lia)) as E.
  change (0 + 8) with 8 in E. change (Z.to_nat 0) with 0%nat in E. cbn [skipn] in E.
  rewrite Z.min_comm, E. cbn [obind].
  rewrite Key_chk_ok. cbn [obind]. rewrite ext_key_loop_chk_ok by (try assumption; lia).
  reflexivity.
Qed.

(* (1e) the two derivations *)
Theorem des_derive_chk_ok : shapes -> decode_shape -> forall pw salt, Forall is_byte (firstn 4 salt) ->
  des_derive_chk pw salt = Some (des_derive ie3264 cf6464 spe pcxRot ksMask hash_decode pw salt).
Proof.
  intros Hs Hd pw salt Hb. unfold des_derive_chk, des_derive.
  rewrite Key_chk_ok. cbn [obind]. rewrite DecodeInt_chk_ok by assumption. cbn [obind].
  rewrite Encrypt_chk_ok by assumption. reflexivity.
Qed.

Theorem desext_derive_chk_ok : shapes -> decode_shape -> forall pw salt rounds, Forall is_byte (firstn 4 salt) ->
  desext_derive_chk pw salt rounds
  = Some (desext_derive ie3264 cf6464 spe pcxRot ksMask hash_decode pw salt rounds).
Proof.
  intros Hs Hd pw salt rounds Hb. unfold desext_derive_chk, desext_derive.
  rewrite ext_key_chk_ok by assumption. cbn [obind]. rewrite DecodeInt_chk_ok by assumption. cbn [obind].
  rewrite Encrypt_chk_ok by assumption. reflexivity.
Qed.
End D.

(* ---------------------------------------------------------------- the committed tables *)
Definition rows16b (p : list (list Z)) : bool := forallb (fun r => Nat.eqb (length r) 16) p.
Lemma rows16b_ok : forall p, rows16b p = true -> rows16 p.
Proof.
  intros p H. unfold rows16b in H. rewrite forallb_forall in H. apply Forall_forall.
  intros r Hr. apply Nat.eqb_eq. now apply H.
Qed.

Definition shapesb (ie cf spe : list (list Z)) (pcx : list (list (list Z) * list (list Z))) : bool :=
  rows16b ie && rows16b cf && Nat.eqb (length spe) 8 && forallb (fun r => Nat.eqb (length r) 64) spe
  && Nat.leb (length pcx) 8 && forallb (fun eo => rows16b (fst eo) && rows16b (snd eo)) pcx.

Lemma shapesb_ok : forall ie cf spe pcx, shapesb ie cf spe pcx = true -> shapes ie cf spe pcx.
Proof.
  intros ie cf spe pcx H. unfold shapesb in H. rewrite !andb_true_iff in H.
  destruct H as [[[[[H1 H2] H3] H4] H5] H6]. constructor.
  - now apply rows16b_ok.
  - now apply rows16b_ok.
  - now apply Nat.eqb_eq.
  - rewrite forallb_forall in H4. apply Forall_forall. intros r Hr. apply Nat.eqb_eq. now apply H4.
  - now apply Nat.leb_le.
  - rewrite forallb_forall in H6. apply Forall_forall. intros eo Heo. specialize (H6 eo Heo).
    rewrite andb_true_iff in H6. destruct H6. split; now apply rows16b_ok.
Qed.

(* the exact shapes of the committed copies (= the Go array types [8][16], [16][16], [8][64], [8][2][16][16], [256]) *)
Lemma m_des_table_shapes :
  (length m_des_ie3264, map (@length Z) m_des_ie3264) = (8, repeat 16 8)%nat /\
  (length m_des_cf6464, map (@length Z) m_des_cf6464) = (16, repeat 16 16)%nat /\
  (length m_des_spe, map (@length Z) m_des_spe) = (8, repeat 64 8)%nat /\
  length m_des_pcxRot = 8%nat /\
  map (fun eo => (map (@length Z) (fst eo), map (@length Z) (snd eo))) m_des_pcxRot
    = repeat (repeat 16 16, repeat 16 16)%nat 8 /\
  length m_hashutil_hash_decode = 256%nat /\ length m_hashutil_hash_encode = 256%nat.
Proof. vm_compute. repeat apply conj; reflexivity. Qed.

Lemma m_des_shapes : shapes m_des_ie3264 m_des_cf6464 m_des_spe m_des_pcxRot.
Proof. apply shapesb_ok. vm_compute. reflexivity. Qed.

Lemma m_decode_shape : decode_shape m_hashutil_hash_decode.
Proof. reflexivity. Qed.

(* the instances C05 uses *)
Definition mEncrypt := Encrypt m_des_ie3264 m_des_cf6464 m_des_spe m_des_pcxRot m_des_ksMask.
Definition mEncrypt_chk := Encrypt_chk m_des_ie3264 m_des_cf6464 m_des_spe m_des_pcxRot m_des_ksMask.

Theorem des_Encrypt_safe : forall key input salt rounds : Z,
  Encrypt_chk m_des_ie3264 m_des_cf6464 m_des_spe m_des_pcxRot m_des_ksMask key input salt rounds
  = Some (Encrypt m_des_ie3264 m_des_cf6464 m_des_spe m_des_pcxRot m_des_ksMask key input salt rounds).
Proof. apply Encrypt_chk_ok. exact m_des_shapes. Qed.

Theorem des_Key_safe : forall pw : bytes, Key_chk pw = Some (Key pw).
Proof. exact Key_chk_ok. Qed.

Theorem des_DecodeInt_safe : forall b : bytes, Forall is_byte (firstn 4 b) ->
  DecodeInt_chk m_hashutil_hash_decode b = Some (DecodeInt m_hashutil_hash_decode b).
Proof. apply DecodeInt_chk_ok. exact m_decode_shape. Qed.

Theorem desext_key_safe : forall pw : bytes,
  ext_key_chk m_des_ie3264 m_des_cf6464 m_des_spe m_des_pcxRot m_des_ksMask pw
  = Some (ext_key m_des_ie3264 m_des_cf6464 m_des_spe m_des_pcxRot m_des_ksMask pw).
Proof. apply ext_key_chk_ok. exact m_des_shapes. Qed.

Theorem des_derive_safe : forall pw salt : bytes, Forall is_byte (firstn 4 salt) ->
  des_derive_chk m_des_ie3264 m_des_cf6464 m_des_spe m_des_pcxRot m_des_ksMask m_hashutil_hash_decode pw salt
  = Some (des_derive m_des_ie3264 m_des_cf6464 m_des_spe m_des_pcxRot m_des_ksMask m_hashutil_hash_decode pw salt).
Proof. apply des_derive_chk_ok; [exact m_des_shapes | exact m_decode_shape]. Qed.

Theorem desext_derive_safe : forall (pw salt : bytes) (rounds : Z), Forall is_byte (firstn 4 salt) ->
  desext_derive_chk m_des_ie3264 m_des_cf6464 m_des_spe m_des_pcxRot m_des_ksMask m_hashutil_hash_decode pw salt rounds
  = Some (desext_derive m_des_ie3264 m_des_cf6464 m_des_spe m_des_pcxRot m_des_ksMask m_hashutil_hash_decode
            pw salt rounds).
Proof. intros. apply desext_derive_chk_ok; [exact m_des_shapes | exact m_decode_shape | assumption]. Qed.

(* ---------------------------------------------------------------- EncodeInt (modelled in Codec/Codec.v) *)
(* b[i] = HashEncoding.Encode(byte((val >> (i*6)) & 0x3F)),  Encode(c) = if int(c) >= len(encoder) { 0xFF } else encoder[c]
   with encoder the 64-symbol alphabet string (= the first 64 entries of the committed, totalised encode table) *)
Definition hash_encoder : bytes := firstn 64 m_hashutil_hash_encode.
Definition Encode_chk (c : Z) : option Z := if 64 <=? c then Some 255 else idx_chk hash_encoder c.
Definition EncodeInt_chk (v : Z) : option bytes :=
  oseq (map (fun i => Encode_chk (Z.land (Z.shiftr v (6 * i)) 63)) [0; 1; 2; 3]).

Lemma hash_encoder_tab : forall k, (k < 64)%nat -> nth k hash_encoder 0 = nth k m_hashutil_hash_encode 255.
Proof.
  assert (E : forallb (fun k => nth k hash_encoder 0 =? nth k m_hashutil_hash_encode 255) (seq 0 64) = true)
    by (vm_compute; reflexivity).
  rewrite forallb_forall in E. intros k Hk. apply Z.eqb_eq, E, in_seq. lia.
Qed.

Theorem des_EncodeInt_safe : forall v : Z, EncodeInt_chk v = Some (GC.Codec.Codec.EncodeInt v).
Proof.
  intros v. unfold EncodeInt_chk, GC.Codec.Codec.EncodeInt. apply oseq_map_some. intros i _.
  pose proof (land_63_range (Z.shiftr v (6 * i))) as R. unfold Encode_chk.
  destruct (Z.leb_spec 64 (Z.land (Z.shiftr v (6 * i)) 63)); try lia.
  rewrite idx_chk_some by (change (length hash_encoder) with 64%nat; lia).
  unfold GC.Codec.Codec.hash_encode_idx. f_equal. apply hash_encoder_tab. lia.
Qed.

(* the derived key is always 8 bytes *)
Lemma be8_length : forall v, length (be8 v) = 8%nat.
Proof. reflexivity. Qed.

(* ---------------------------------------------------------------- the checks are not vacuous *)
(* the byte hypothesis of DecodeInt is needed by the MODEL (a non-byte would index past decodeMap); Go's byte type
   rules such values out, so this is not a finding about the Go code *)
Lemma decode_int_chk_tight :
  DecodeInt_chk m_hashutil_hash_decode [256] = None /\ DecodeInt_chk m_hashutil_hash_decode [46; 47; -1] = None /\
  DecodeInt_chk m_hashutil_hash_decode [255; 0; 128; 7; 300] = Some (DecodeInt m_hashutil_hash_decode [255; 0; 128; 7; 300]).
Proof. vm_compute. repeat apply conj; reflexivity. Qed.

(* a table with a short row does make the checked code fail: dropping the last entry of row 3 of cf6464 *)
Lemma encrypt_chk_detects_short_row :
  let cf' := firstn 3 m_des_cf6464 ++ [firstn 15 (nth 3 m_des_cf6464 [])] ++ skipn 4 m_des_cf6464 in
  Encrypt_chk m_des_ie3264 cf' m_des_spe m_des_pcxRot m_des_ksMask 14 0 0 1 = None /\
  Encrypt_chk m_des_ie3264 cf' m_des_spe m_des_pcxRot m_des_ksMask 13 0 0 1 = Some 14560886001356732955.
Proof. vm_compute. split; reflexivity. Qed.

(* concrete instances, evaluated (checked and unchecked agree; crypt("password","ab") key material) *)
Lemma des_concrete :
  des_derive_chk m_des_ie3264 m_des_cf6464 m_des_spe m_des_pcxRot m_des_ksMask m_hashutil_hash_decode
    [112;97;115;115;119;111;114;100] [97;98]
  = Some (des_derive m_des_ie3264 m_des_cf6464 m_des_spe m_des_pcxRot m_des_ksMask m_hashutil_hash_decode
    [112;97;115;115;119;111;114;100] [97;98]) /\
  desext_derive_chk m_des_ie3264 m_des_cf6464 m_des_spe m_des_pcxRot m_des_ksMask m_hashutil_hash_decode
    [112;97;115;115;119;111;114;100;32;108;111;110;103;101;114;32;116;104;97;110;32;56;255;200] [97;98;99;100] 77
  = Some (desext_derive m_des_ie3264 m_des_cf6464 m_des_spe m_des_pcxRot m_des_ksMask m_hashutil_hash_decode
    [112;97;115;115;119;111;114;100;32;108;111;110;103;101;114;32;116;104;97;110;32;56;255;200] [97;98;99;100] 77).
Proof. vm_compute. split; reflexivity. Qed.

Check des_Encrypt_safe.
Check des_Key_safe.
Check des_DecodeInt_safe.
Check desext_key_safe.
Check des_derive_safe.
Check desext_derive_safe.
Check des_EncodeInt_safe.
Check Encrypt_chk_ok.
Check DecodeInt_chk_bytes.
Check m_des_table_shapes.

Print Assumptions des_Encrypt_safe.
Print Assumptions des_Key_safe.
Print Assumptions des_DecodeInt_safe.
Print Assumptions desext_key_safe.
Print Assumptions des_derive_safe.
Print Assumptions desext_derive_safe.
Print Assumptions des_EncodeInt_safe.
Print Assumptions Encrypt_chk_ok.
Print Assumptions DecodeInt_chk_bytes.
Print Assumptions m_des_table_shapes.
Print Assumptions m_des_shapes.
Print Assumptions decode_int_chk_tight.
Print Assumptions encrypt_chk_detects_short_row.
Print Assumptions des_concrete.
