(* C09, part 5: concrete checks of the refinement statements of Kdf/Argon2Refine.v on a tiny instance
   (threads = 2, segments = 3, lanes = 12, memory = 24 blocks), evaluated with vm_compute, independently of the proofs:
     - the list memory after Argon2.processSegment / process_slice vs the function memory after the lane task /
       a NON-sequential interleaving of the two lane tasks, compared on addresses -1, 0..23, 24, 25;
     - Argon2d / Argon2i / Argon2id, versions 16 and 19, first and later passes;
     - the unguarded abstraction `fun x => getb B x` does not commute with a write to block 0 (why abs has a guard);
     - the hypotheses of slice_any_schedule are satisfiable by a non-sequential schedule (ex_interleaving, ex_theorem). *)
Require Import GC.Base.Bytes GC.Kdf.Argon2 GC.Kdf.Argon2Index GC.Kdf.Argon2Sched GC.Kdf.Argon2SchedProofs
               GC.Kdf.Argon2Refine.

Definition mkblock (s : Z) : list Z :=
  map (fun k => u64 (s * 1000003 + Z.of_nat k * 2654435761 + s * s * Z.of_nat k)) (seq 0 128).
Definition B0 : Argon2.mem := map (fun k => mkblock (Z.of_nat k + 1)) (seq 0 24).
Definition addrs : list Z := [-1] ++ map Z.of_nat (seq 0 24) ++ [24; 25].

Definition same_on (l : list Z) (m1 m2 : Argon2Sched.mem) : bool := forallb (fun x => bytes_eqb (m1 x) (m2 x)) l.

(* a0 b0 a1 b1 ... *)
Fixpoint alternate (a b : list step) : list step :=
  match a, b with
  | [], _ => b
  | _, [] => a
  | x :: a', y :: b' => y :: x :: alternate a' b'
  end.

Definition test_segment (mode version n slice lane : Z) : bool :=
  same_on addrs
    (abs (processSegment B0 mode version 3 24 12 3 2 n slice lane))
    (runs (lane_task (model_G version) (model_rnd mode 3 24 n slice) 12 3 2 n slice lane) (abs B0)).

Definition test_slice (mode version n slice : Z) : bool :=
  let G := model_G version in
  let rnd := model_rnd mode 3 24 n slice in
  same_on addrs
    (abs (process_slice B0 mode version 3 24 12 3 2 n slice))
    (runs (alternate (lane_task G rnd 12 3 2 n slice 0) (lane_task G rnd 12 3 2 n slice 1)) (abs B0)).

Example test_segments :
  forallb (fun b => b)
    [test_segment 0 19 0 0 0; test_segment 0 16 1 0 1; test_segment 1 19 0 0 1; test_segment 1 16 2 3 0;
     test_segment 2 19 0 0 0; test_segment 2 19 0 1 1; test_segment 2 16 0 2 0; test_segment 2 19 1 0 1] = true.
Proof. vm_compute. reflexivity. Qed.

Example test_slices :
  forallb (fun b => b)
    [test_slice 0 19 0 0; test_slice 0 16 1 1; test_slice 1 19 0 1; test_slice 1 16 1 0;
     test_slice 2 19 0 0; test_slice 2 19 0 1; test_slice 2 16 0 2; test_slice 2 19 1 3] = true.
Proof. vm_compute. reflexivity. Qed.

(* why abs guards x < 0: getb B (-1) is getb B 0 *)
Example unguarded_abs_wrong :
  (fun x => getb (setb B0 0 zero_block) x) (-1) <> upd (fun x => getb B0 x) 0 zero_block (-1).
Proof. vm_compute. discriminate. Qed.

(* the hypotheses of R3 are satisfiable, with a schedule that is not the sequential one *)
Definition exG := model_G 19.
Definition exrnd := model_rnd 0 3 24 1 1.
Definition a (lane index : Z) : step := argon2_step exG exrnd 12 3 2 1 1 lane index.
Definition sigma_ex : list step := [a 1 0; a 0 0; a 1 1; a 0 1; a 0 2; a 1 2].

Example ex_params : slice_params_ok 12 3 2 1 1.
Proof. unfold slice_params_ok. lia. Qed.

Example ex_interleaving : interleaving sigma_ex (slice_tasks exG exrnd 12 3 2 1 1).
Proof.
  change (slice_tasks exG exrnd 12 3 2 1 1) with [[a 0 0; a 0 1; a 0 2]; [a 1 0; a 1 1; a 1 2]].
  unfold sigma_ex.
  apply (il_pick [[a 0 0; a 0 1; a 0 2]] (a 1 0) [a 1 1; a 1 2] []).
  apply (il_pick [] (a 0 0) [a 0 1; a 0 2] [[a 1 1; a 1 2]]).
  apply (il_pick [[a 0 1; a 0 2]] (a 1 1) [a 1 2] []).
  apply (il_pick [] (a 0 1) [a 0 2] [[a 1 2]]).
  apply (il_pick [] (a 0 2) [] [[a 1 2]]).
  apply (il_pick [[]] (a 1 2) [] []).
  apply il_done. intros t [<-|[<-|[]]]; reflexivity.
Qed.

Example ex_theorem : meq (runs sigma_ex (abs B0)) (abs (process_slice B0 0 19 3 24 12 3 2 1 1)).
Proof.
  apply (slice_any_schedule 0 19 3 24 12 3 2 1 1 ex_params B0 sigma_ex).
  - vm_compute. discriminate.
  - exact ex_interleaving.
Qed.

Print Assumptions test_segments.
Print Assumptions test_slices.
Print Assumptions unguarded_abs_wrong.
Print Assumptions ex_theorem.
