(* Conventions for the KDF control-code models: every Go slice expression with a computed bound is a CHECKED
   operation, so "no panic" is a theorem about the model, not an assumption.  Hash primitives are parameters. *)
Require Import GC.Base.Bytes.

(* s[lo:hi] as Go evaluates it: panics unless 0 <= lo <= hi <= len(s) (cap = len for the slices involved) *)
Definition sl (s : bytes) (lo hi : Z) : option bytes :=
  if (0 <=? lo) && (lo <=? hi) && (hi <=? Z.of_nat (length s))
  then Some (firstn (Z.to_nat (hi - lo)) (skipn (Z.to_nat lo) s)) else None.

Definition obind {A B} (o : option A) (f : A -> option B) : option B :=
  match o with Some a => f a | None => None end.
Notation "'do' x <- e ; f" := (obind e (fun x => f)) (at level 200, x ident, e at level 100, f at level 200).

(* cryptoutil.Permute(b, t): buf[i] = b[t[i]]; panics when an index is out of range *)
Fixpoint permute (b t : bytes) : option bytes :=
  match t with
  | [] => Some []
  | j :: r => if (0 <=? j) && (j <? Z.of_nat (length b))
              then match permute b r with Some x => Some (nth (Z.to_nat j) b 0 :: x) | None => None end
              else None
  end.

(* n bytes of b repeated cyclically (the "as many bytes of the digest as the password is long" of the specs) *)
Fixpoint take_cyclic_from (fuel : nat) (b cur : bytes) (n : nat) : bytes :=
  match n with
  | O => []
  | S n' => match cur with
            | c :: r => c :: take_cyclic_from fuel b r n'
            | [] => match b with
                    | c :: r => c :: take_cyclic_from fuel b r n'
                    | [] => []
                    end
            end
  end.
Definition take_cyclic (b : bytes) (n : nat) : bytes := take_cyclic_from O b b n.

Definition lenZ (s : bytes) : Z := Z.of_nat (length s).
