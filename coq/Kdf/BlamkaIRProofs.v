(* The program the translator is expected to produce from blamka_generic.go, and the proof that it computes the
   compression function of the model (Argon2.process_block) for all block contents. *)
Require Import GC.Base.Bytes GC.Kdf.Argon2 GC.Kdf.BlamkaIR.
Require Import Lia.

(* ---- Go's operation-by-operation wrap-around = the closed forms of the model ---- *)
Lemma go_addmul_eq x y : go_addmul x y = fBlaMka x y.
Proof.
  unfold go_addmul, fBlaMka, u64.
  rewrite Zmult_mod_idemp_l, (Zplus_mod_idemp_r (2 * lo32 x * lo32 y)), Zplus_mod_idemp_r.
  reflexivity.
Qed.

Lemma go_rot_eq x n : go_rot x n (64 - n) = rotr64 x n.
Proof. reflexivity. Qed.

(* ---- one G step as twelve instructions ---- *)
Definition gb_instrs (q : nat * nat * nat * nat) : list binstr :=
  let '(a, b, c, d) := q in
  [IAddMul a b; IXor d a; IRot d 32 32; IAddMul c d; IXor b c; IRot b 24 40;
   IAddMul a b; IXor d a; IRot d 16 48; IAddMul c d; IXor b c; IRot b 63 1].

Definition expected_prog : list binstr := flat_map gb_instrs blamka_quads.
Definition expected_loads : list nat := seq 0 16.
Definition expected_stores : list (nat * nat) := map (fun k => (k, k)) (seq 0 16).

Lemma setw_length l i v : length (setw l i v) = length l.
Proof. revert i; induction l as [|x r IH]; intros [|k]; simpl; auto. Qed.

Lemma apply_GB_length v q : length (apply_GB v q) = length v.
Proof.
  destruct q as [[[a b] c] d]. unfold apply_GB.
  destruct (GB (getw v a) (getw v b) (getw v c) (getw v d)) as [[[a' b'] c'] d'].
  now rewrite !setw_length.
Qed.

Lemma blamka_fold_length qs v : length (fold_left apply_GB qs v) = length v.
Proof. revert v; induction qs as [|q r IH]; intro v; simpl; [reflexivity|]. now rewrite IH, apply_GB_length. Qed.

Lemma blamka_length v : length (blamka v) = length v.
Proof. apply blamka_fold_length. Qed.

Ltac sixteen v :=
  do 16 (destruct v as [|? v]; [discriminate|]); destruct v; [|discriminate].

Lemma gb_instrs_step q v :
  In q blamka_quads -> length v = 16%nat -> brun (gb_instrs q) v = apply_GB v q.
Proof.
  intros Hq Hv. sixteen v.
  unfold blamka_quads in Hq.
  repeat (destruct Hq as [<-|Hq]; [
    cbv [brun fold_left bstep gb_instrs getw setw nth apply_GB GB];
    rewrite !go_addmul_eq;
    change (go_rot ?x 32 32) with (rotr64 x 32);
    change (go_rot ?x 24 40) with (rotr64 x 24);
    change (go_rot ?x 16 48) with (rotr64 x 16);
    change (go_rot ?x 63 1) with (rotr64 x 63);
    reflexivity |]).
  destruct Hq.
Qed.

Lemma brun_app p1 p2 v : brun (p1 ++ p2) v = brun p2 (brun p1 v).
Proof. apply fold_left_app. Qed.

Lemma brun_quads qs v :
  incl qs blamka_quads -> length v = 16%nat ->
  brun (flat_map gb_instrs qs) v = fold_left apply_GB qs v.
Proof.
  revert v; induction qs as [|q r IH]; intros v Hin Hv; [reflexivity|].
  cbn [flat_map fold_left]. rewrite brun_app, gb_instrs_step; auto.
  - apply IH; [intros x Hx; apply Hin; now right | now rewrite apply_GB_length].
  - apply Hin; now left.
Qed.

Theorem expected_prog_is_blamka v : length v = 16%nat -> brun expected_prog v = blamka v.
Proof. intro Hv. apply brun_quads; [apply incl_refl | exact Hv]. Qed.

(* ---- a call through sixteen pointers into t = blamka_at ---- *)
Lemma call_blamka_expected t idx :
  length idx = 16%nat ->
  call_blamka expected_loads expected_prog expected_stores t idx = blamka_at t idx.
Proof.
  intro Hi. sixteen idx.
  unfold call_blamka, blamka_at.
  change (map (fun p => getw t (nth p [n; n0; n1; n2; n3; n4; n5; n6; n7; n8; n9; n10; n11; n12; n13; n14] 0%nat)) expected_loads)
    with (map (getw t) [n; n0; n1; n2; n3; n4; n5; n6; n7; n8; n9; n10; n11; n12; n13; n14]).
  rewrite expected_prog_is_blamka by reflexivity.
  pose proof (blamka_length (map (getw t) [n; n0; n1; n2; n3; n4; n5; n6; n7; n8; n9; n10; n11; n12; n13; n14])) as Hw.
  cbn [map length] in Hw.
  remember (blamka [getw t n; getw t n0; getw t n1; getw t n2; getw t n3; getw t n4; getw t n5; getw t n6;
                    getw t n7; getw t n8; getw t n9; getw t n10; getw t n11; getw t n12; getw t n13; getw t n14]) as w eqn:Ew.
  cbn [map]. rewrite <- Ew. clear Ew.
  sixteen w.
  reflexivity.
Qed.

Lemma fold_calls_expected calls t :
  Forall (fun idx => length idx = 16%nat) calls ->
  fold_left (call_blamka expected_loads expected_prog expected_stores) calls t = fold_left blamka_at calls t.
Proof.
  intro H; revert t; induction H as [|idx r Hi _ IH]; intro t; [reflexivity|].
  cbn [fold_left]. now rewrite call_blamka_expected, IH.
Qed.

(* ---- processBlockGeneric ---- *)
Definition expected_pb : list pbstmt :=
  [PZero Vt;
   PMap Vt false [Vin1; Vin2];
   PCalls (map row_idx (seq 0 8));
   PCalls (map col_idx (seq 0 8));
   PIf (PMap Vout true [Vin1; Vin2; Vt]) (PMap Vout false [Vin1; Vin2; Vt])].

Lemma rows_sixteen : Forall (fun idx => length idx = 16%nat) (map row_idx (seq 0 8)).
Proof. repeat constructor. Qed.
Lemma cols_sixteen : Forall (fun idx => length idx = 16%nat) (map col_idx (seq 0 8)).
Proof. repeat constructor. Qed.

Theorem expected_pb_is_process_block out in1 in2 xor :
  pb_run expected_loads expected_prog expected_stores expected_pb out in1 in2 xor = process_block out in1 in2 xor.
Proof.
  unfold pb_run, expected_pb, process_block.
  cbn [fold_left pb_step pb_set pb_get s_out s_in1 s_in2 s_t].
  rewrite (fold_calls_expected _ _ rows_sixteen), (fold_calls_expected _ _ cols_sixteen).
  destruct xor; reflexivity.
Qed.

(* ---- processBlockSSE without SSE4.1: the same calls on t, between the assembly mix and the assembly xor ---- *)
Definition expected_sse_fallback : list pbstmt :=
  [PCalls (map row_idx (seq 0 8)); PCalls (map col_idx (seq 0 8))].

Theorem expected_sse_fallback_is_P s xor :
  s_t (fold_left (pb_step expected_loads expected_prog expected_stores xor) expected_sse_fallback s)
  = fold_left blamka_at (map col_idx (seq 0 8)) (fold_left blamka_at (map row_idx (seq 0 8)) (s_t s)).
Proof.
  unfold expected_sse_fallback.
  cbn [fold_left pb_step pb_set pb_get s_out s_in1 s_in2 s_t].
  now rewrite (fold_calls_expected _ _ rows_sixteen), (fold_calls_expected _ _ cols_sixteen).
Qed.
