(* C09, part 1: the reference-block index computed by Argon2.indexAlpha / Argon2.phi
   (the model of argon2crypto.indexAlpha / phi, uint32/uint64 wrap-around explicit).

   Main results (all about the REAL definitions of Kdf/Argon2.v):
     index_range        the reference is block  rl*lanes + w  with 0 <= rl < threads, 0 <= w < lanes
     other_lane_safe    a reference into another lane is never inside the slice being written
     own_lane_safe      a reference into the own lane is a block already written (and not the block being written)
     own_lane_safe_strong   ... and it is not the block `prev` either (RFC 9106 3.4: "index - 1" blocks)
     prev_in_own_lane   the block `prev` of the model is lane*lanes + (slice*segments + index - 1) mod lanes
   No Zify div/mod hook is used: quotient facts are introduced by Z.mod_small / Z.mod_unique / Z.div_lt_upper_bound. *)
Require Import GC.Base.Bytes GC.Kdf.Argon2.

(* ------------------------------------------------------------------------- *)
(* Definitions used by the statements                                         *)
(* ------------------------------------------------------------------------- *)

(* the lane component of the reference, exactly the let-bound [refLane] of Argon2.indexAlpha *)
Definition refLane (rand threads n slice lane : Z) : Z :=
  if (n =? 0) && (slice =? 0) then lane else u32 (Z.shiftr rand 32) mod threads.

Definition index_args_ok (rand lanes segments threads n slice lane index : Z) : Prop :=
  0 <= rand < 2 ^ 64 /\
  2 <= segments /\
  lanes = 4 * segments /\
  1 <= threads <= 255 /\
  threads * lanes <= 2 ^ 32 - 1 /\
  0 <= n /\
  0 <= slice < 4 /\
  0 <= lane < threads /\
  0 <= index < segments /\
  (n = 0 -> slice = 0 -> 2 <= index).

(* the block `prev` of Argon2.segment_loop, as a function of the loop variables *)
Definition prevOf (lanes slice index offset : Z) : Z :=
  if (index =? 0) && (slice =? 0) then u32 (u32 (offset - 1) + lanes) else u32 (offset - 1).

(* ------------------------------------------------------------------------- *)
(* Small facts                                                                *)
(* ------------------------------------------------------------------------- *)

Lemma u32_small x : 0 <= x < 2 ^ 32 -> u32 x = x.
Proof. intros H. unfold u32. apply Z.mod_small. exact H. Qed.

Lemma u64_small x : 0 <= x < 2 ^ 64 -> u64 x = x.
Proof. intros H. unfold u64. apply Z.mod_small. exact H. Qed.

Lemma land_mask32 x : Z.land x 4294967295 = x mod 2 ^ 32.
Proof. change 4294967295 with (Z.ones 32). apply Z.land_ones. lia. Qed.

Lemma shiftr32 x : Z.shiftr x 32 = x / 2 ^ 32.
Proof. apply Z.shiftr_div_pow2. lia. Qed.

Lemma lane_pos_unique lanes a p b q :
  0 <= p < lanes -> 0 <= q < lanes -> a * lanes + p = b * lanes + q -> a = b /\ p = q.
Proof.
  intros Hp Hq E.
  assert (Hab : a = b).
  { destruct (Z_lt_ge_dec a b) as [Hlt|Hge].
    - exfalso. assert (Hm : (a + 1) * lanes <= b * lanes) by (apply Z.mul_le_mono_nonneg_r; lia). lia.
    - destruct (Z_lt_ge_dec b a) as [Hlt|Hge'].
      + exfalso. assert (Hm : (b + 1) * lanes <= a * lanes) by (apply Z.mul_le_mono_nonneg_r; lia). lia.
      + lia. }
  subst b. split; [reflexivity | lia].
Qed.

Lemma lane_block_bound lanes threads rl p :
  0 <= rl < threads -> 0 <= p < lanes -> 0 <= rl * lanes + p < threads * lanes.
Proof.
  intros Hrl Hp.
  assert (H1 : 0 <= rl * lanes) by (apply Z.mul_nonneg_nonneg; lia).
  assert (H2 : (rl + 1) * lanes <= threads * lanes) by (apply Z.mul_le_mono_nonneg_r; lia).
  lia.
Qed.

(* ------------------------------------------------------------------------- *)
(* phi                                                                        *)
(* ------------------------------------------------------------------------- *)

(* phi picks a block of lane [lane] at within-lane position (s + z) mod lanes with 0 <= z < m *)
Lemma phi_range rand m s lane lanes :
  0 <= rand < 2 ^ 64 -> 0 < m < 2 ^ 32 -> 0 <= s -> s + m <= 2 ^ 33 -> 0 < lanes < 2 ^ 32 ->
  0 <= lane -> lane * lanes + lanes <= 2 ^ 32 ->
  exists z, 0 <= z < m /\ phi rand m s lane lanes = lane * lanes + (s + z) mod lanes.
Proof.
  intros Hr Hm Hs Hsm Hl Hlane Hmem. unfold phi.
  rewrite land_mask32. rewrite !shiftr32.
  set (p0 := rand mod 2 ^ 32).
  assert (Hp0 : 0 <= p0 < 2 ^ 32) by (unfold p0; apply Z.mod_pos_bound; lia).
  assert (Hpp : 0 <= p0 * p0 < 2 ^ 64) by nia.
  rewrite (u64_small (p0 * p0)) by exact Hpp.
  set (p1 := p0 * p0 / 2 ^ 32).
  assert (Hp1 : 0 <= p1 < 2 ^ 32).
  { unfold p1. split; [apply Z.div_pos; lia | apply Z.div_lt_upper_bound; lia]. }
  assert (Hpm : 0 <= p1 * m < 2 ^ 64) by nia.
  rewrite (u64_small (p1 * m)) by exact Hpm.
  set (p2 := p1 * m / 2 ^ 32).
  assert (Hp2 : 0 <= p2 < m).
  { unfold p2. split; [apply Z.div_pos; lia | apply Z.div_lt_upper_bound; nia]. }
  exists (m - 1 - p2). split; [lia|].
  replace (s + m - (p2 + 1)) with (s + (m - 1 - p2)) by lia.
  rewrite (u64_small (s + (m - 1 - p2))) by lia.
  assert (Hq : 0 <= (s + (m - 1 - p2)) mod lanes < lanes) by (apply Z.mod_pos_bound; lia).
  rewrite (u32_small ((s + (m - 1 - p2)) mod lanes)) by lia.
  assert (Hll : 0 <= lane * lanes) by (apply Z.mul_nonneg_nonneg; lia).
  apply u32_small. lia.
Qed.

(* ------------------------------------------------------------------------- *)
(* Closed form of indexAlpha                                                   *)
(* ------------------------------------------------------------------------- *)

(* the window length m and window start s handed to phi, without wrap-around *)
Definition ref_m (segments n slice index : Z) (same : bool) : Z :=
  (if n =? 0 then slice * segments else 3 * segments)
  + (if same then index else 0)
  - (if (index =? 0) || same then 1 else 0).
Definition ref_s (segments n slice : Z) : Z :=
  if n =? 0 then 0 else ((slice + 1) mod 4) * segments.

Lemma phi_range_eq rand M S m s lane lanes :
  M = m -> S = s ->
  0 <= rand < 2 ^ 64 -> 0 < m < 2 ^ 32 -> 0 <= s -> s + m <= 2 ^ 33 -> 0 < lanes < 2 ^ 32 ->
  0 <= lane -> lane * lanes + lanes <= 2 ^ 32 ->
  exists z, 0 <= z < m /\ phi rand M S lane lanes = lane * lanes + (s + z) mod lanes.
Proof. intros -> ->. apply phi_range. Qed.

Lemma refLane_range rand lanes segments threads n slice lane index :
  index_args_ok rand lanes segments threads n slice lane index ->
  0 <= refLane rand threads n slice lane < threads.
Proof.
  intros (Hr & Hseg & Hl & Ht & Hmem & Hn & Hs & Hlane & Hi & H0).
  unfold refLane. destruct ((n =? 0) && (slice =? 0)); [lia|]. apply Z.mod_pos_bound; lia.
Qed.

Lemma indexAlpha_shape rand lanes segments threads n slice lane index :
  index_args_ok rand lanes segments threads n slice lane index ->
  let rl := refLane rand threads n slice lane in
  exists z, 0 <= z < ref_m segments n slice index (lane =? rl) /\
            indexAlpha rand lanes segments threads n slice lane index
            = rl * lanes + (ref_s segments n slice + z) mod lanes.
Proof.
  intros Hok rl.
  assert (Hrl : 0 <= rl < threads) by (exact (refLane_range _ _ _ _ _ _ _ _ Hok)).
  destruct Hok as (Hr & Hseg & Hl & Ht & Hmem & Hn & Hs & Hlane & Hi & H0).
  assert (Hlanes : 0 < lanes < 2 ^ 32) by nia.
  assert (Hrlmem : rl * lanes + lanes <= 2 ^ 32).
  { assert (H2 : (rl + 1) * lanes <= threads * lanes) by (apply Z.mul_le_mono_nonneg_r; lia). lia. }
  assert (Hfirst : n = 0 -> slice = 0 -> (lane =? rl) = true).
  { intros -> ->. unfold rl, refLane. cbn. apply Z.eqb_refl. }
  unfold indexAlpha. cbv zeta.
  change (if (n =? 0) && (slice =? 0) then lane else u32 (Z.shiftr rand 32) mod threads) with rl.
  unfold ref_m, ref_s.
  set (ss := slice * segments).
  assert (Hss : 0 <= ss <= 3 * segments) by (unfold ss; nia).
  assert (Hss0 : slice <> 0 -> segments <= ss) by (intros; unfold ss; nia).
  assert (Hss00 : slice = 0 -> ss = 0) by (intros; unfold ss; nia).
  assert (Hq : 0 <= (slice + 1) mod 4 < 4) by (apply Z.mod_pos_bound; lia).
  set (qs := (slice + 1) mod 4 * segments).
  assert (Hqs : 0 <= qs <= 3 * segments) by (unfold qs; nia).
  destruct (n =? 0) eqn:En; [apply Z.eqb_eq in En | apply Z.eqb_neq in En].
  - (* first pass *)
    destruct (slice =? 0) eqn:Es; [apply Z.eqb_eq in Es | apply Z.eqb_neq in Es].
    + (* first slice: own lane, index >= 2 *)
      rewrite (Hfirst En Es). cbn [orb andb].
      assert (Ei : (index =? 0) = false) by (apply Z.eqb_neq; specialize (H0 En Es); lia).
      rewrite Ei. cbn [orb].
      specialize (H0 En Es). specialize (Hss00 Es).
      rewrite (u32_small ss) by lia.
      rewrite (u32_small (ss + index)) by lia.
      rewrite (u32_small (ss + index - 1)) by lia.
      apply phi_range_eq; lia.
    + specialize (Hss0 Es).
      destruct (lane =? rl) eqn:Esame; cbn [orb andb].
      * rewrite Bool.orb_true_r.
        rewrite (u32_small ss) by lia.
        rewrite (u32_small (ss + index)) by lia.
        rewrite (u32_small (ss + index - 1)) by lia.
        apply phi_range_eq; lia.
      * rewrite Bool.orb_false_r.
        rewrite (u32_small ss) by lia.
        destruct (index =? 0) eqn:Ei.
        -- rewrite (u32_small (ss - 1)) by lia. apply phi_range_eq; lia.
        -- apply phi_range_eq; lia.
  - (* later passes *)
    rewrite (u32_small (3 * segments)) by lia.
    rewrite (u32_small qs) by lia.
    destruct (lane =? rl) eqn:Esame; cbn [orb andb].
    + rewrite Bool.orb_true_r.
      rewrite (u32_small (3 * segments + index)) by lia.
      rewrite (u32_small (3 * segments + index - 1)) by lia.
      apply phi_range_eq; lia.
    + rewrite Bool.orb_false_r.
      destruct (index =? 0) eqn:Ei.
      * rewrite (u32_small (3 * segments - 1)) by lia. apply phi_range_eq; lia.
      * apply phi_range_eq; lia.
Qed.

(* ------------------------------------------------------------------------- *)
(* The window  [s, s + 3*segments + k)  modulo lanes misses the rest of the current segment *)
(* ------------------------------------------------------------------------- *)

Lemma window_mod segments slice k z :
  1 <= segments -> 0 <= slice < 4 -> -1 <= k < segments -> 0 <= z < 3 * segments + k ->
  ~ (slice * segments + k <= ((slice + 1) mod 4 * segments + z) mod (4 * segments) < (slice + 1) * segments).
Proof.
  intros Hseg Hs Hk Hz.
  assert (Hcases : slice = 0 \/ slice = 1 \/ slice = 2 \/ slice = 3) by lia.
  destruct Hcases as [->|[->|[->| ->]]].
  - change ((0 + 1) mod 4) with 1. intros [Ha Hb].
    destruct (Z_lt_ge_dec (1 * segments + z) (4 * segments)) as [Hlt|Hge].
    + rewrite Z.mod_small in Ha, Hb by lia. lia.
    + assert (E : (1 * segments + z) mod (4 * segments) = 1 * segments + z - 4 * segments).
      { symmetry. apply Z.mod_unique with 1; lia. }
      rewrite E in Ha, Hb. lia.
  - change ((1 + 1) mod 4) with 2. intros [Ha Hb].
    destruct (Z_lt_ge_dec (2 * segments + z) (4 * segments)) as [Hlt|Hge].
    + rewrite Z.mod_small in Ha, Hb by lia. lia.
    + assert (E : (2 * segments + z) mod (4 * segments) = 2 * segments + z - 4 * segments).
      { symmetry. apply Z.mod_unique with 1; lia. }
      rewrite E in Ha, Hb. lia.
  - change ((2 + 1) mod 4) with 3. intros [Ha Hb].
    destruct (Z_lt_ge_dec (3 * segments + z) (4 * segments)) as [Hlt|Hge].
    + rewrite Z.mod_small in Ha, Hb by lia. lia.
    + assert (E : (3 * segments + z) mod (4 * segments) = 3 * segments + z - 4 * segments).
      { symmetry. apply Z.mod_unique with 1; lia. }
      rewrite E in Ha, Hb. lia.
  - change ((3 + 1) mod 4) with 0. intros [Ha Hb].
    rewrite Z.mod_small in Ha, Hb by lia. lia.
Qed.

(* ------------------------------------------------------------------------- *)
(* Main theorems                                                              *)
(* ------------------------------------------------------------------------- *)

(* The reference is a block of the memory, in lane rl at within-lane position w. *)
Theorem index_range rand lanes segments threads n slice lane index :
  index_args_ok rand lanes segments threads n slice lane index ->
  let rl := refLane rand threads n slice lane in
  exists w, indexAlpha rand lanes segments threads n slice lane index = rl * lanes + w /\
            0 <= w < lanes /\ 0 <= rl < threads.
Proof.
  intros Hok rl.
  destruct (indexAlpha_shape _ _ _ _ _ _ _ _ Hok) as [z [Hz E]]. fold rl in Hz, E.
  exists ((ref_s segments n slice + z) mod lanes). split; [exact E|]. split.
  - apply Z.mod_pos_bound. destruct Hok as (Hr & Hseg & Hl & Ht & Hmem & Hn & Hs & Hlane & Hi & H0). lia.
  - exact (refLane_range _ _ _ _ _ _ _ _ Hok).
Qed.

Corollary index_in_memory rand lanes segments threads n slice lane index :
  index_args_ok rand lanes segments threads n slice lane index ->
  0 <= indexAlpha rand lanes segments threads n slice lane index < threads * lanes.
Proof.
  intros Hok. destruct (index_range _ _ _ _ _ _ _ _ Hok) as [w [E [Hw Hrl]]].
  rewrite E. apply lane_block_bound; assumption.
Qed.

(* the decomposition  rl*lanes + w  determines w *)
Lemma index_pos_unique rand lanes segments threads n slice lane index w :
  index_args_ok rand lanes segments threads n slice lane index ->
  indexAlpha rand lanes segments threads n slice lane index = refLane rand threads n slice lane * lanes + w ->
  exists z, 0 <= z < ref_m segments n slice index (lane =? refLane rand threads n slice lane) /\
            w = (ref_s segments n slice + z) mod lanes.
Proof.
  intros Hok Ew. destruct (indexAlpha_shape _ _ _ _ _ _ _ _ Hok) as [z [Hz E]].
  exists z. split; [exact Hz|]. lia.
Qed.

(* A reference into ANOTHER lane is never inside the slice currently being written
   (first pass: it lies strictly before that slice). *)
Theorem other_lane_safe rand lanes segments threads n slice lane index :
  index_args_ok rand lanes segments threads n slice lane index ->
  let rl := refLane rand threads n slice lane in
  rl <> lane ->
  forall w, indexAlpha rand lanes segments threads n slice lane index = rl * lanes + w ->
    0 <= w < lanes /\
    (if n =? 0 then w < slice * segments
     else ~ (slice * segments <= w < (slice + 1) * segments)).
Proof.
  intros Hok rl Hne w Ew.
  destruct (index_pos_unique _ _ _ _ _ _ _ _ _ Hok Ew) as [z [Hz ->]]. fold rl in Hz.
  destruct Hok as (Hr & Hseg & Hl & Ht & Hmem & Hn & Hs & Hlane & Hi & H0).
  split; [apply Z.mod_pos_bound; lia|].
  assert (Esame : (lane =? rl) = false) by (apply Z.eqb_neq; lia).
  rewrite Esame in Hz. unfold ref_m in Hz. unfold ref_s.
  assert (Hb : 0 <= (if (index =? 0) || false then 1 else 0) <= 1) by (destruct ((index =? 0) || false); lia).
  destruct (n =? 0) eqn:En.
  - assert (Hss : 0 <= slice * segments <= 3 * segments) by nia.
    rewrite Z.mod_small by lia. lia.
  - subst lanes.
    intros Hc. apply (window_mod segments slice 0 z); lia.
Qed.

(* A reference into the OWN lane is a block already written: it is neither the block being written
   nor the block `prev` (position slice*segments + index - 1), and
     first pass  : it lies before position slice*segments + index - 1
     later passes: it is not in the part [slice*segments + index - 1, (slice+1)*segments) of the current segment,
   i.e. (RFC 9106 3.4) all blocks of the other three slices plus the first index-1 blocks of the current segment. *)
Theorem own_lane_safe_strong rand lanes segments threads n slice lane index :
  index_args_ok rand lanes segments threads n slice lane index ->
  let rl := refLane rand threads n slice lane in
  rl = lane ->
  forall w, indexAlpha rand lanes segments threads n slice lane index = rl * lanes + w ->
    0 <= w < lanes /\
    (if n =? 0 then w < slice * segments + index - 1
     else ~ (slice * segments + index - 1 <= w < (slice + 1) * segments)).
Proof.
  intros Hok rl Heq w Ew.
  destruct (index_pos_unique _ _ _ _ _ _ _ _ _ Hok Ew) as [z [Hz ->]]. fold rl in Hz.
  destruct Hok as (Hr & Hseg & Hl & Ht & Hmem & Hn & Hs & Hlane & Hi & H0).
  split; [apply Z.mod_pos_bound; lia|].
  assert (Esame : (lane =? rl) = true) by (apply Z.eqb_eq; lia).
  rewrite Esame in Hz. unfold ref_m in Hz. rewrite Bool.orb_true_r in Hz. unfold ref_s.
  destruct (n =? 0) eqn:En.
  - assert (Hss : 0 <= slice * segments <= 3 * segments) by nia.
    rewrite Z.mod_small by lia. lia.
  - subst lanes.
    intros Hc. apply (window_mod segments slice (index - 1) z); lia.
Qed.

(* The statement asked for (weaker than own_lane_safe_strong; true as stated). *)
Theorem own_lane_safe rand lanes segments threads n slice lane index :
  index_args_ok rand lanes segments threads n slice lane index ->
  let rl := refLane rand threads n slice lane in
  rl = lane ->
  forall w, indexAlpha rand lanes segments threads n slice lane index = rl * lanes + w ->
    w <> slice * segments + index /\
    (if n =? 0 then w < slice * segments + index
     else ~ (slice * segments + index <= w < (slice + 1) * segments)).
Proof.
  intros Hok rl Heq w Ew.
  destruct (own_lane_safe_strong _ _ _ _ _ _ _ _ Hok Heq w Ew) as [Hw Hs].
  destruct Hok as (Hr & Hseg & Hl & Ht & Hmem & Hn & Hsl & Hlane & Hi & H0).
  assert (Hss : 0 <= slice * segments /\ slice * segments + segments = (slice + 1) * segments) by nia.
  destruct (n =? 0); lia.
Qed.

(* ------------------------------------------------------------------------- *)
(* prev and offset                                                            *)
(* ------------------------------------------------------------------------- *)

(* one iteration of Argon2.segment_loop, with prev written as prevOf (definitional) *)
Lemma segment_loop_unfold k B mode version time memory lanes segments threads n slice lane indep inb addresses index offset :
  segment_loop (S k) B mode version time memory lanes segments threads n slice lane indep inb addresses index offset =
  let prev := prevOf lanes slice index offset in
  let '(inb', addresses') :=
    if indep && (index mod 128 =? 0) then next_addresses inb else (inb, addresses) in
  let random := if indep then getw addresses' (Z.to_nat (index mod 128)) else getw (getb B prev) 0 in
  let newOffset := indexAlpha random lanes segments threads n slice lane index in
  let newblock := process_block (getb B offset) (getb B prev) (getb B newOffset) (negb (version =? 16)) in
  segment_loop k (setb B (Z.to_nat offset) newblock) mode version time memory lanes segments threads n slice lane
               indep inb' addresses' (index + 1) (u32 (offset + 1)).
Proof. reflexivity. Qed.

(* the offsets of the model do not wrap *)
Lemma offset_closed_form lanes segments threads slice lane index :
  2 <= segments -> lanes = 4 * segments -> 1 <= threads -> threads * lanes <= 2 ^ 32 - 1 ->
  0 <= slice < 4 -> 0 <= lane < threads -> 0 <= index < segments ->
  u32 (u32 (lane * lanes) + u32 (slice * segments) + index) = lane * lanes + slice * segments + index /\
  u32 (lane * lanes + slice * segments + index + 1) = lane * lanes + slice * segments + index + 1 /\
  0 <= lane * lanes + slice * segments + index < threads * lanes.
Proof.
  intros Hseg Hl Ht Hmem Hs Hlane Hi.
  assert (Hss : 0 <= slice * segments <= 3 * segments) by nia.
  assert (Hb : 0 <= lane * lanes + (slice * segments + index) < threads * lanes)
    by (apply lane_block_bound; lia).
  assert (Hll : 0 <= lane * lanes) by (apply Z.mul_nonneg_nonneg; lia).
  rewrite (u32_small (lane * lanes)) by lia.
  rewrite (u32_small (slice * segments)) by lia.
  split; [apply u32_small; lia|]. split; [apply u32_small; lia|]. lia.
Qed.

(* The block `prev` of the model is a block of the own lane, different from the block being written,
   and for index = 0 it lies in the previous slice (cyclically), not in the current one. *)
Theorem prev_in_own_lane lanes segments threads slice lane index :
  2 <= segments -> lanes = 4 * segments -> 1 <= threads -> threads * lanes <= 2 ^ 32 - 1 ->
  0 <= slice < 4 -> 0 <= lane < threads -> 0 <= index < segments ->
  let offset := lane * lanes + slice * segments + index in
  let p := (slice * segments + index - 1) mod lanes in
  prevOf lanes slice index offset = lane * lanes + p /\
  0 <= p < lanes /\
  p <> slice * segments + index /\
  (index = 0 -> ~ (slice * segments <= p < (slice + 1) * segments)) /\
  (0 < index -> p = slice * segments + index - 1).
Proof.
  intros Hseg Hl Ht Hmem Hs Hlane Hi offset p.
  assert (Hss : 0 <= slice * segments <= 3 * segments) by nia.
  assert (Hb : 0 <= lane * lanes + (slice * segments + index) < threads * lanes)
    by (apply lane_block_bound; lia).
  assert (Hll : 0 <= lane * lanes) by (apply Z.mul_nonneg_nonneg; lia).
  assert (Hlt : (lane + 1) * lanes <= threads * lanes) by (apply Z.mul_le_mono_nonneg_r; lia).
  assert (Hp : 0 <= p < lanes) by (unfold p; apply Z.mod_pos_bound; lia).
  unfold prevOf, offset.
  destruct (index =? 0) eqn:Ei; [apply Z.eqb_eq in Ei | apply Z.eqb_neq in Ei].
  - destruct (slice =? 0) eqn:Es; [apply Z.eqb_eq in Es | apply Z.eqb_neq in Es]; cbn [andb].
    + (* first block of the lane: prev is the last block of the lane *)
      subst index slice.
      assert (Ep : p = lanes - 1).
      { unfold p. symmetry. apply Z.mod_unique with (-1); lia. }
      assert (E1 : u32 (u32 (lane * lanes + 0 * segments + 0 - 1) + lanes) = lane * lanes + (lanes - 1)).
      { destruct (Z.eq_dec lane 0) as [->|Hl0].
        - assert (E0 : u32 (0 * lanes + 0 * segments + 0 - 1) = 2 ^ 32 - 1).
          { unfold u32. symmetry. apply Z.mod_unique with (-1); lia. }
          rewrite E0. unfold u32. symmetry. apply Z.mod_unique with 1; lia.
        - assert (Hl1 : 1 * lanes <= lane * lanes) by (apply Z.mul_le_mono_nonneg_r; lia).
          rewrite (u32_small (lane * lanes + 0 * segments + 0 - 1)) by lia.
          rewrite u32_small by lia. lia. }
      rewrite E1, Ep. repeat split; try lia.
    + assert (Hsg : segments <= slice * segments) by nia.
      assert (Ep : p = slice * segments + index - 1) by (unfold p; apply Z.mod_small; lia).
      rewrite u32_small by lia. rewrite Ep.
      assert (Hnext : (slice + 1) * segments = slice * segments + segments) by nia.
      repeat split; try lia.
  - assert (Ep : p = slice * segments + index - 1) by (unfold p; apply Z.mod_small; lia).
    cbn [andb]. rewrite u32_small by lia. rewrite Ep.
    repeat split; try lia.
Qed.

Print Assumptions index_range.
Print Assumptions index_in_memory.
Print Assumptions other_lane_safe.
Print Assumptions own_lane_safe_strong.
Print Assumptions own_lane_safe.
Print Assumptions prev_in_own_lane.
Print Assumptions offset_closed_form.
