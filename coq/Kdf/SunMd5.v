(* sunmd5/sunmd5.go: the derivation inside Key (after the guards), literally.  H = MD5 of everything written.
   saltString is what crypthash.Marshal(saltScheme) produced. *)
Require Import GC.Base.Bytes GC.Kdf.KdfBase GC.Codec.Strconv.

Section S.
Variable H : bytes -> bytes.
Variable phrase permFinal : bytes.

Definition u32 (x : Z) : Z := x mod 2 ^ 32.
Definition dig (digest : bytes) (k : Z) : Z := nth (Z.to_nat k) digest 0.

(* bit := func(off uint32) uint32 { off %= 128; if digest[off/8] & (1 << (off%8)) != 0 { 1 } else { 0 } } *)
Definition bit (digest : bytes) (off : Z) : Z :=
  let o := off mod 128 in
  if negb (Z.land (dig digest (o / 8)) (Z.shiftl 1 (o mod 8)) =? 0) then 1 else 0.

(* ind7[j] = (digest[ind4] >> sh7) & 0x7F  with  ind4 = (digest[j] >> (digest[off] % 5)) & 0x0F,
   sh7 = (digest[off] >> (digest[j] % 8)) & 0x01,  off = (j + 3) % 16 *)
Definition ind7 (digest : bytes) (j : Z) : Z :=
  let off := (j + 3) mod 16 in
  let ind4 := Z.land (Z.shiftr (dig digest j) (dig digest off mod 5)) 15 in
  let sh7 := Z.land (Z.shiftr (dig digest off) (dig digest j mod 8)) 1 in
  Z.land (Z.shiftr (dig digest ind4) sh7) 127.

(* indA |= bit(ind7[j]) << j for j = 0..7; indB likewise with ind7[j+8] *)
Definition gather (digest : bytes) (base : Z) : Z :=
  fold_left (fun acc j => Z.lor acc (Z.shiftl (bit digest (ind7 digest (base + j))) j)) [0;1;2;3;4;5;6;7] 0.

Definition coin (digest : bytes) (i : Z) : bool :=
  let indA := Z.land (Z.shiftr (gather digest 0) (bit digest i)) 127 in
  let indB := Z.land (Z.shiftr (gather digest 8) (bit digest (u32 (i + 64)))) 127 in
  Z.lxor (bit digest indA) (bit digest indB) =? 1.

Definition round (digest : bytes) (i : Z) : bytes :=
  H (digest ++ (if coin digest i then phrase else []) ++ FormatUint i 10).

Fixpoint rounds (n : nat) (digest : bytes) (i : Z) : bytes :=
  match n with O => digest | S n' => rounds n' (round digest i) (i + 1) end.

(* rounds += BasicRounds (uint32 arithmetic; MaxRounds keeps it from wrapping) *)
Definition Key (pw saltString : bytes) (nrounds basic : Z) : option bytes :=
  let total := u32 (nrounds + basic) in
  permute (rounds (Z.to_nat total) (H (pw ++ saltString)) 0) permFinal.
End S.
