(* Collected KDF control-code theorems.  The generic facts (take_cyclic_length, permute_some, sl_prefix, ...) live in
   KdfBaseProofs.v because the per-scheme files need them; they are re-exported here. *)
Require Export GC.Base.Bytes GC.Kdf.KdfBase GC.Kdf.KdfBaseProofs GC.Kdf.Md5CryptProofs GC.Kdf.Sha2CryptProofs GC.Kdf.Sha1CryptProofs
  GC.Kdf.BcryptProofs.

Check take_cyclic_length.
Check permute_some.
Check md5crypt_impl_spec.
Check md5crypt_total.
Check duplicate_spec.
Check sha2crypt_impl_spec.
Check sha2crypt_total.
Check sha1crypt_impl_spec.
Check sha1crypt_total.
Check bcrypt_impl_spec.

Print Assumptions take_cyclic_length.
Print Assumptions permute_some.
Print Assumptions md5crypt_impl_spec.
Print Assumptions md5crypt_total.
Print Assumptions duplicate_spec.
Print Assumptions sha2crypt_impl_spec.
Print Assumptions sha2crypt_total.
Print Assumptions sha1crypt_impl_spec.
Print Assumptions sha1crypt_total.
Print Assumptions bcrypt_impl_spec.
