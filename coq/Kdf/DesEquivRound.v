(* One table-driven half-iteration (a Feistel round in E-expanded representation) = one round of the specification;
   sixteen of them.  Representation invariant between rounds:  l = Erep L,  r = Erep R  (Erep = E then word layout). *)
Require Import GC.Base.Bytes GC.Kdf.DesSpec GC.Kdf.DesSpecLemmas GC.Kdf.DesCrypt GC.Kdf.DesTables GC.Kdf.DesEquivTables.

(* ---------------------------------------------------------------------------------------------------- *)
(* small list / selection helpers *)
Lemma selnth_map_zseq : forall (fn : Z -> Z) n i, 0 <= i < Z.of_nat n -> selnth (map fn (zseq n)) i = fn i.
Proof.
  intros fn n i Hi. unfold selnth. replace (i <? 0) with false by (symmetry; apply Z.ltb_ge; lia).
  rewrite nth_indep with (d' := fn 0) by (rewrite map_length, zseq_length; lia).
  rewrite map_nth, nth_zseq by lia. f_equal. lia.
Qed.

Lemma zsel_land_ones : forall n l x, 0 <= n -> forallb (fun i => i <? n) l = true ->
  zsel l (Z.land x (Z.ones n)) = zsel l x.
Proof.
  intros n l x Hn. induction l as [|i l IH]; intros H; [reflexivity|].
  simpl in H. apply andb_true_iff in H. destruct H as [Hi Hl]. apply Z.ltb_lt in Hi.
  simpl zsel. rewrite IH by exact Hl. f_equal. f_equal.
  rewrite Z.land_spec, testbit_ones by lia.
  destruct (Z_lt_dec i 0).
  - rewrite Z.testbit_neg_r by lia. reflexivity.
  - replace (0 <=? i) with true by (symmetry; apply Z.leb_le; lia).
    replace (i <? n) with true by (symmetry; apply Z.ltb_lt; lia). apply andb_true_r.
Qed.

(* ---------------------------------------------------------------------------------------------------- *)
(* the salt: expansion to a 32-bit mask, and the masked exchange of the two word halves *)
Definition saltx (salt : Z) : Z :=
  u32 (Z.lor (Z.lor (Z.lor (u32 (Z.shiftl (Z.land salt 63) 26)) (u32 (Z.shiftl (Z.land salt 4032) 12)))
                    (Z.shiftr (Z.land salt 258048) 2)) (Z.shiftr (Z.land salt 16515072) 16)).

(* bit p (< 32) of the mask = salt bit 6 (3 - p / 8) + p mod 8 - 2 (none for the two low bits of each byte) *)
Definition saltsel : list Z :=
  map (fun p => let j := p mod 8 in if j <? 2 then -1 else 6 * (3 - p / 8) + (j - 2)) (zseq 32).

Lemma saltx_low : forall salt, saltx salt = saltx (Z.land salt (Z.ones 24)).
Proof.
  intros. unfold saltx. rewrite <- !(Z.land_assoc salt (Z.ones 24)).
  change (Z.land (Z.ones 24) 63) with 63. change (Z.land (Z.ones 24) 4032) with 4032.
  change (Z.land (Z.ones 24) 258048) with 258048. change (Z.land (Z.ones 24) 16515072) with 16515072.
  reflexivity.
Qed.

Lemma orlin_saltx : orlin saltx.
Proof.
  unfold saltx, u32.
  apply (orlin_modpow2 (fun salt => Z.lor (Z.lor (Z.lor (Z.shiftl (Z.land salt 63) 26 mod 2 ^ 32) (Z.shiftl (Z.land salt 4032) 12 mod 2 ^ 32))
                    (Z.shiftr (Z.land salt 258048) 2)) (Z.shiftr (Z.land salt 16515072) 16)) 32); [lia|].
  repeat apply orlin_lor.
  - apply (orlin_modpow2 (fun salt => Z.shiftl (Z.land salt 63) 26) 32); [lia|].
    apply (orlin_shiftl (fun salt => Z.land salt 63)). apply (orlin_land (fun x => x)). apply orlin_id.
  - apply (orlin_modpow2 (fun salt => Z.shiftl (Z.land salt 4032) 12) 32); [lia|].
    apply (orlin_shiftl (fun salt => Z.land salt 4032)). apply (orlin_land (fun x => x)). apply orlin_id.
  - apply (orlin_shiftr (fun salt => Z.land salt 258048)). apply (orlin_land (fun x => x)). apply orlin_id.
  - apply (orlin_shiftr (fun salt => Z.land salt 16515072)). apply (orlin_land (fun x => x)). apply orlin_id.
Qed.

Lemma saltx_sel : forall salt, saltx salt = zsel saltsel salt.
Proof.
  intros. rewrite saltx_low.
  rewrite <- (zsel_land_ones 24 saltsel salt) by (try lia; vm_compute; reflexivity).
  apply (orlin_basis_check 24 saltx (fun x => zsel saltsel x)).
  - apply orlin_saltx.
  - apply orlin_zsel. apply orlin_id.
  - vm_compute. reflexivity.
  - rewrite Z.land_ones by lia. apply Z.mod_pos_bound. lia.
Qed.

(* the code's  b = (k << 32) ^ k ^ r  with  k = ((r >> 32) ^ r) & salt  *)
Definition mix (s r : Z) : Z :=
  let k := Z.land (Z.lxor (Z.shiftr r 32) r) s in Z.lxor (Z.lxor (u64 (Z.shiftl k 32)) k) r.

Lemma mix_testbit : forall s r p, 0 <= s < 2 ^ 32 -> 0 <= r < 2 ^ 64 -> 0 <= p ->
  Z.testbit (mix s r) p =
  if p <? 64 then (if Z.testbit s (p mod 32) then Z.testbit r ((p + 32) mod 64) else Z.testbit r p) else false.
Proof.
  intros s r p Hs Hr Hp. unfold mix, u64.
  rewrite !Z.lxor_spec, Z.land_spec, Z.lxor_spec, Z.shiftr_spec by lia.
  destruct (Z_lt_dec p 32) as [H32|H32].
  - replace (p <? 64) with true by (symmetry; apply Z.ltb_lt; lia).
    rewrite Z.mod_pow2_bits_low by lia. rewrite Z.shiftl_spec by lia. rewrite Z.testbit_neg_r by lia.
    rewrite Z.mod_small by lia. replace ((p + 32) mod 64) with (p + 32) by (rewrite Z.mod_small; lia).
    destruct (Z.testbit s p), (Z.testbit r (p + 32)), (Z.testbit r p); reflexivity.
  - assert (Es : Z.testbit s p = false) by (apply (testbit_small 32); lia).
    rewrite Es, andb_false_r.
    destruct (Z_lt_dec p 64) as [H64|H64].
    + replace (p <? 64) with true by (symmetry; apply Z.ltb_lt; lia).
      rewrite Z.mod_pow2_bits_low by lia. rewrite Z.shiftl_spec by lia.
      rewrite Z.land_spec, Z.lxor_spec, Z.shiftr_spec by lia.
      replace (p - 32 + 32) with p by lia.
      assert (E1 : p mod 32 = p - 32) by (symmetry; apply (Z.mod_unique p 32 1 (p - 32)); lia).
      assert (E2 : (p + 32) mod 64 = p - 32) by (symmetry; apply (Z.mod_unique (p + 32) 64 1 (p - 32)); lia).
      rewrite E1, E2.
      destruct (Z.testbit s (p - 32)), (Z.testbit r (p - 32)), (Z.testbit r p); reflexivity.
    + replace (p <? 64) with false by (symmetry; apply Z.ltb_ge; lia).
      rewrite Z.mod_pow2_bits_high by lia.
      rewrite (testbit_small 64 r p) by lia. reflexivity.
Qed.

(* index facts tying the word layout, the mask layout and the specification's exchange of E bits i and i + 24 *)
Definition mix_idx_ok (p : Z) : bool :=
  let q := selnth Wsel p in
  let q2 := selnth Wsel ((p + 32) mod 64) in
  let si := selnth saltsel (p mod 32) in
  if q <? 0 then q2 <? 0
  else (0 <=? q) && (q <? 48) && (si =? (47 - q) mod 24) && (q2 =? (q + 24) mod 48) && (0 <=? si).

Lemma mix_idx_all : forallb mix_idx_ok (zseq 64) = true.
Proof. vm_compute. reflexivity. Qed.

(* the masked half exchange in word layout = the salt exchange of the specification *)
Lemma mix_W : forall salt y, mix (zsel saltsel salt) (W y) = W (salt_swap salt y).
Proof.
  intros salt y. apply Z.bits_inj'. intros p Hp.
  assert (Hs : 0 <= zsel saltsel salt < 2 ^ 32) by (apply (zsel_range saltsel salt)).
  assert (Hw : 0 <= W y < 2 ^ 64) by (apply (zsel_range Wsel y)).
  rewrite mix_testbit by (try assumption).
  destruct (Z_lt_dec p 64) as [H64|H64].
  - replace (p <? 64) with true by (symmetry; apply Z.ltb_lt; lia).
    pose proof (forall_zseq 64 _ mix_idx_all p (conj Hp H64)) as C. unfold mix_idx_ok in C.
    unfold W, salt_swap. rewrite !zsel_testbit'.
    remember (selnth Wsel p) as q eqn:Eq.
    remember (selnth Wsel ((p + 32) mod 64)) as q2 eqn:Eq2.
    remember (selnth saltsel (p mod 32)) as si eqn:Esi.
    destruct (q <? 0) eqn:Hq.
    + apply Z.ltb_lt in Hq. apply Z.ltb_lt in C.
      rewrite (Z.testbit_neg_r y q2) by lia. rewrite (Z.testbit_neg_r y q) by lia.
      unfold selnth at 1. replace (q <? 0) with true by (symmetry; apply Z.ltb_lt; lia).
      rewrite (Z.testbit_neg_r y (-1)) by lia. destruct (Z.testbit salt si); reflexivity.
    + apply Z.ltb_ge in Hq.
      repeat (apply andb_true_iff in C; destruct C as [C ?C]).
      apply Z.leb_le in C. apply Z.ltb_lt in C3. apply Z.eqb_eq in C2. apply Z.eqb_eq in C1. apply Z.leb_le in C0.
      unfold salt_sel. rewrite selnth_map_zseq by (simpl Z.of_nat; lia).
      rewrite <- C2, <- C1.
      destruct (Z.testbit salt si); reflexivity.
  - replace (p <? 64) with false by (symmetry; apply Z.ltb_ge; lia).
    symmetry. apply (testbit_small 64); [exact (zsel_range Wsel _) | lia].
Qed.

(* ---------------------------------------------------------------------------------------------------- *)
(* the S-box layer: eight SPE lookups = E(P(S(.))) in word layout *)

(* the code's 6-bit index into SPE row g, bit-reversed, is the g-th 6-bit group of the specification *)
Lemma code_grp : forall g y, 0 <= g < 8 ->
  zsel rev6sel (Z.land (Z.shiftr (W y) (58 - 8 * g)) 63) = grp6 g y.
Proof.
  intros g y Hg. unfold grp6. change 63 with (Z.ones (Z.of_nat 6)).
  rewrite !field_zsel by lia. unfold W. rewrite !zsel_comp.
  f_equal.
  assert (C : forallb (fun g => bytes_eqb (comp (comp rev6sel (map (fun j => 58 - 8 * g + j) (zseq 6))) Wsel)
                                          (map (fun j => 42 - 6 * g + j) (zseq 6))) (zseq 8) = true).
  { vm_compute. reflexivity. }
  apply bytes_eqb_eq. apply (forall_zseq 8 _ C g Hg).
Qed.

Lemma sbox_range : forall g u, 0 <= sbox g u < 16.
Proof.
  intros. unfold sbox.
  assert (G : forall (l : list Z) n, forallb (fun a => (0 <=? a) && (a <? 16)) l = true -> 0 <= nth n l 0 < 16).
  { induction l as [|a l IH]; intros n H; destruct n; simpl; try lia.
    - simpl in H. apply andb_true_iff in H. destruct H as [H _]. apply andb_true_iff in H. lia.
    - simpl in H. apply andb_true_iff in H. destruct H as [_ H]. apply IH. exact H. }
  apply G.
  assert (R : forall (ll : list (list Z)) n, forallb (forallb (fun a => (0 <=? a) && (a <? 16))) ll = true ->
              forallb (fun a => (0 <=? a) && (a <? 16)) (nth n ll []) = true).
  { induction ll as [|a ll IH]; intros n H; destruct n; simpl; try reflexivity.
    - simpl in H. apply andb_true_iff in H. tauto.
    - simpl in H. apply andb_true_iff in H. apply IH. tauto. }
  apply R. vm_compute. reflexivity.
Qed.

Lemma horner_step : forall acc a, 0 <= a < 16 -> acc * 16 + a = Z.lxor (Z.shiftl acc 4) a.
Proof.
  intros acc a Ha. rewrite Z.shiftl_mul_pow2 by lia. change (2 ^ 4) with 16.
  apply Z.add_nocarry_lxor. apply Z.bits_inj'. intros k Hk.
  rewrite Z.land_spec, Z.testbit_0_l. change 16 with (2 ^ 4). rewrite <- Z.shiftl_mul_pow2 by lia.
  destruct (Z_lt_dec k 4).
  - rewrite Z.shiftl_spec_low by lia. reflexivity.
  - rewrite (testbit_small 4 a k) by (simpl; lia). apply andb_false_r.
Qed.

(* S(x), the Horner concatenation of the specification, as an exclusive-or of nibbles in place *)
Lemma sboxes_xor : forall x,
  sboxes x = fold_left Z.lxor (map (fun g => Z.shiftl (sbox g (grp6 g x)) (28 - 4 * g)) (zseq 8)) 0.
Proof.
  intros x. unfold sboxes. cbv [zseq seq map fold_left Z.of_nat Pos.of_succ_nat Pos.succ].
  rewrite !horner_step by apply sbox_range.
  rewrite !Z.shiftl_lxor, !Z.shiftl_shiftl, !Z.shiftl_0_l by lia.
  reflexivity.
Qed.

Lemma fold_lxor_zsel : forall l (h : Z -> Z) ks a,
  fold_left Z.lxor (map (fun k => zsel l (h k)) ks) (zsel l a) = zsel l (fold_left Z.lxor (map h ks) a).
Proof.
  intros l h ks. induction ks as [|k ks IH]; intros a; simpl; [reflexivity|].
  rewrite <- zsel_lxor. apply IH.
Qed.

Lemma Erep_W : forall x, Erep x = W (fperm 32 E x).
Proof. intros. unfold Erep, Erepsel, W, fperm. rewrite zsel_comp. reflexivity. Qed.

Lemma EPsel_spec : forall z, zsel EPsel z = Erep (fperm 32 P z).
Proof. intros. unfold EPsel, Erep, fperm. rewrite zsel_comp. reflexivity. Qed.

Lemma spe_mix_W : forall y, spe_mix m_des_spe (W y) = Erep (fperm 32 P (sboxes y)).
Proof.
  intros y. rewrite sboxes_xor, <- EPsel_spec.
  rewrite <- (zsel_0 EPsel) at 1. rewrite <- fold_lxor_zsel. rewrite zsel_0.
  unfold spe_mix. f_equal. unfold zseq. rewrite map_map.
  apply map_ext_in. intros k Hk. apply in_seq in Hk.
  replace (nth k m_des_spe []) with (nth (Z.to_nat (Z.of_nat k)) m_des_spe []) by (rewrite Nat2Z.id; reflexivity).
  rewrite spe_char.
  - rewrite EPsel_spec. rewrite code_grp by lia. reflexivity.
  - lia.
  - change 63 with (Z.ones 6). rewrite Z.land_ones by lia. apply Z.mod_pos_bound. lia.
Qed.

(* ---------------------------------------------------------------------------------------------------- *)
(* one half-iteration of the table code = one round function of the specification *)
Lemma W_lxor : forall a b, Z.lxor (W a) (W b) = W (Z.lxor a b).
Proof. intros. symmetry. apply (zsel_lxor Wsel). Qed.
Lemma Erep_lxor : forall a b, Z.lxor (Erep a) (Erep b) = Erep (Z.lxor a b).
Proof. intros. symmetry. apply (zsel_lxor Erepsel). Qed.

Lemma half_step : forall salt K L R,
  Z.lxor (Erep L) (spe_mix m_des_spe (Z.lxor (mix (zsel saltsel salt) (Erep R)) (W K))) = Erep (Z.lxor L (f salt K R)).
Proof.
  intros salt K L R.
  unfold f. rewrite (Erep_W R), mix_W, W_lxor, spe_mix_W, Erep_lxor. reflexivity.
Qed.

Fixpoint flat (ks : list (Z * Z)) : list Z := match ks with [] => [] | (a, b) :: r => a :: b :: flat r end.

Lemma feistel_cons : forall spe a b rest salt l r,
  feistel spe ((a, b) :: rest) salt l r =
    let l' := Z.lxor l (spe_mix spe (Z.lxor (mix salt r) a)) in
    let r' := Z.lxor r (spe_mix spe (Z.lxor (mix salt l') b)) in
    feistel spe rest salt l' r'.
Proof. intros. unfold mix. cbn [feistel]. reflexivity. Qed.

(* sixteen rounds (eight pairs) *)
Theorem feistel_spec : forall salt ks L R,
  feistel m_des_spe (map (fun ab => (W (fst ab), W (snd ab))) ks) (zsel saltsel salt) (Erep L) (Erep R)
  = (Erep (fst (fold_left (round salt) (flat ks) (L, R))), Erep (snd (fold_left (round salt) (flat ks) (L, R)))).
Proof.
  intros salt ks. induction ks as [|[a b] ks IH]; intros L R.
  - reflexivity.
  - rewrite map_cons. simpl fst. simpl snd. rewrite feistel_cons. cbv zeta.
    rewrite half_step. rewrite half_step. rewrite IH. reflexivity.
Qed.

Check saltx_sel.
Check mix_W.
Check spe_mix_W.
Check half_step.
Check feistel_spec.
Print Assumptions saltx_sel.
Print Assumptions mix_W.
Print Assumptions spe_mix_W.
Print Assumptions half_step.
Print Assumptions feistel_spec.
