(* argon2/argon2crypto: Key, initHash, blake2bHash (H'), initBlocks, processBlocks (evaluated lane by lane),
   indexAlpha, phi, processBlockGeneric, blamkaGeneric, extractKey.  uint32/uint64 wrap-around is explicit.
   B2 n data = BLAKE2b with an n-byte digest (golang.org/x/crypto/blake2b), a parameter. *)
Require Import GC.Base.Bytes.

Definition u64 (x : Z) : Z := x mod 2 ^ 64.
Definition u32 (x : Z) : Z := x mod 2 ^ 32.
Definition lo32 (x : Z) : Z := x mod 2 ^ 32.
Definition rotr64 (x n : Z) : Z := Z.lor (Z.shiftr x n) (u64 (Z.shiftl x (64 - n))).

(* ---- BlaMka ---- *)
Definition fBlaMka (a b : Z) : Z := u64 (a + (b + 2 * lo32 a * lo32 b)).
Definition GB (a b c d : Z) : Z * Z * Z * Z :=
  let a := fBlaMka a b in let d := rotr64 (Z.lxor d a) 32 in
  let c := fBlaMka c d in let b := rotr64 (Z.lxor b c) 24 in
  let a := fBlaMka a b in let d := rotr64 (Z.lxor d a) 16 in
  let c := fBlaMka c d in let b := rotr64 (Z.lxor b c) 63 in
  (a, b, c, d).

Definition getw (l : list Z) (i : nat) : Z := nth i l 0.
Fixpoint setw (l : list Z) (i : nat) (v : Z) : list Z :=
  match l, i with
  | [], _ => []
  | _ :: r, O => v :: r
  | x :: r, S k => x :: setw r k v
  end.

Definition apply_GB (v : list Z) (q : nat * nat * nat * nat) : list Z :=
  let '(ia, ib, ic, id) := q in
  let '(a, b, c, d) := GB (getw v ia) (getw v ib) (getw v ic) (getw v id) in
  setw (setw (setw (setw v ia a) ib b) ic c) id d.

(* blamkaGeneric on sixteen words: four columns, then four diagonals *)
Definition blamka_quads : list (nat * nat * nat * nat) :=
  [(0, 4, 8, 12); (1, 5, 9, 13); (2, 6, 10, 14); (3, 7, 11, 15);
   (0, 5, 10, 15); (1, 6, 11, 12); (2, 7, 8, 13); (3, 4, 9, 14)]%nat.
Definition blamka (v : list Z) : list Z := fold_left apply_GB blamka_quads v.

(* apply blamka to the sixteen words of t at the given positions *)
Definition blamka_at (t : list Z) (idx : list nat) : list Z :=
  let v := blamka (map (getw t) idx) in
  fold_left (fun acc p => setw acc (fst p) (snd p)) (combine idx v) t.

Definition row_idx (i : nat) : list nat := map (fun k => (16 * i + k)%nat) (seq 0 16).
Definition col_idx (i : nat) : list nat :=
  flat_map (fun r => [(16 * r + 2 * i)%nat; (16 * r + 2 * i + 1)%nat]) (seq 0 8).

Definition xor_blocks (a b : list Z) : list Z := map (fun p => Z.lxor (fst p) (snd p)) (combine a b).

(* processBlockGeneric(out, in1, in2, xor): returns the new contents of out *)
Definition process_block (out in1 in2 : list Z) (xor : bool) : list Z :=
  let t0 := xor_blocks in1 in2 in
  let t1 := fold_left blamka_at (map row_idx (seq 0 8)) t0 in
  let t2 := fold_left blamka_at (map col_idx (seq 0 8)) t1 in
  let r := xor_blocks t0 t2 in
  if xor then xor_blocks out r else r.

Definition zero_block : list Z := repeat 0 128.

(* ---- little-endian helpers ---- *)
Definition le_bytes (n : nat) (v : Z) : bytes := map (fun k => Z.shiftr v (8 * Z.of_nat k) mod 256) (seq 0 n).
Fixpoint le_word (b : bytes) : Z := match b with [] => 0 | x :: r => x + 256 * le_word r end.
Fixpoint words_of (fuel : nat) (b : bytes) : list Z :=
  match fuel with O => [] | S f => le_word (firstn 8 b) :: words_of f (skipn 8 b) end.
Definition block_of_bytes (b : bytes) : list Z := words_of 128 b.
Definition bytes_of_block (w : list Z) : bytes := flat_map (le_bytes 8) w.

Section A.
Variable B2 : Z -> bytes -> bytes.

(* blake2bHash(out, in) with len(out) = outlen *)
Fixpoint hprime_loop (fuel : nat) (buffer : bytes) (remaining : Z) (acc : bytes) : bytes * bytes * Z :=
  (* for len(out) > 64 { buffer = B2 64 buffer; copy 32; out = out[32:] } *)
  match fuel with
  | O => (buffer, acc, remaining)
  | S f => if 64 <? remaining then
             let buffer' := B2 64 buffer in
             hprime_loop f buffer' (remaining - 32) (acc ++ firstn 32 buffer')
           else (buffer, acc, remaining)
  end.
Definition Hprime (outlen : Z) (input : bytes) : bytes :=
  if outlen <=? 64 then B2 outlen (le_bytes 4 (u32 outlen) ++ input)
  else
    let buffer := B2 64 (le_bytes 4 (u32 outlen) ++ input) in
    let '(buffer', acc, remaining) := hprime_loop (Z.to_nat (outlen / 32 + 2)) buffer (outlen - 32) (firstn 32 buffer) in
    let size := if 0 <? outlen mod 64 then outlen - 32 * ((outlen + 31) / 32 - 2) else 64 in
    acc ++ B2 size buffer'.

Definition initHash (pw salt : bytes) (time memory threads keyLen mode version : Z) : bytes :=
  B2 64 (le_bytes 4 threads ++ le_bytes 4 keyLen ++ le_bytes 4 memory ++ le_bytes 4 time ++ le_bytes 4 (u32 version)
         ++ le_bytes 4 (u32 mode)
         ++ le_bytes 4 (u32 (Z.of_nat (length pw))) ++ pw
         ++ le_bytes 4 (u32 (Z.of_nat (length salt))) ++ salt
         ++ le_bytes 4 0 ++ le_bytes 4 0).

Definition mem := list (list Z).
Definition getb (B : mem) (i : Z) : list Z := nth (Z.to_nat i) B zero_block.
Fixpoint setb (B : mem) (i : nat) (v : list Z) : mem :=
  match B, i with
  | [], _ => []
  | _ :: r, O => v :: r
  | x :: r, S k => x :: setb r k v
  end.

Definition initBlocks (h0 : bytes) (memory threads : Z) : mem :=
  fold_left (fun B lane =>
               let j := u32 (lane * (memory / threads)) in
               let b0 := block_of_bytes (Hprime 1024 (h0 ++ le_bytes 4 0 ++ le_bytes 4 lane)) in
               let b1 := block_of_bytes (Hprime 1024 (h0 ++ le_bytes 4 1 ++ le_bytes 4 lane)) in
               setb (setb B (Z.to_nat j) b0) (Z.to_nat (j + 1)) b1)
            (map Z.of_nat (seq 0 (Z.to_nat threads))) (repeat zero_block (Z.to_nat memory)).

(* phi and indexAlpha *)
Definition phi (rand m s lane lanes : Z) : Z :=
  let p := Z.land rand 4294967295 in
  let p := Z.shiftr (u64 (p * p)) 32 in
  let p := Z.shiftr (u64 (p * m)) 32 in
  u32 (lane * lanes + u32 (u64 (s + m - (p + 1)) mod lanes)).

Definition indexAlpha (rand lanes segments threads n slice lane index : Z) : Z :=
  let refLane := if (n =? 0) && (slice =? 0) then lane else u32 (Z.shiftr rand 32) mod threads in
  let m0 := u32 (3 * segments) in
  let s0 := u32 (((slice + 1) mod 4) * segments) in
  let m1 := if lane =? refLane then u32 (m0 + index) else m0 in
  let '(m2, s2) := if n =? 0
                   then (let m := u32 (slice * segments) in
                         (if (slice =? 0) || (lane =? refLane) then u32 (m + index) else m, 0))
                   else (m1, s0) in
  let m3 := if (index =? 0) || (lane =? refLane) then u32 (m2 - 1) else m2 in
  phi rand m3 s2 refLane lanes.

Definition Argon2d := 0. Definition Argon2i := 1. Definition Argon2id := 2.

(* next address block: in[6]++; addresses = G(in, zero); addresses = G(addresses, zero) *)
Definition next_addresses (inb : list Z) : list Z * list Z :=
  let inb' := setw inb 6 (u64 (getw inb 6 + 1)) in
  let a1 := process_block zero_block inb' zero_block false in
  (inb', process_block a1 a1 zero_block false).

(* the loop of processSegment; k = number of blocks still to fill *)
Fixpoint segment_loop (k : nat) (B : mem) (mode version time memory lanes segments threads n slice lane : Z)
         (indep : bool) (inb addresses : list Z) (index offset : Z) : mem :=
  match k with
  | O => B
  | S k' =>
    let prev := if (index =? 0) && (slice =? 0) then u32 (u32 (offset - 1) + lanes) else u32 (offset - 1) in
    let '(inb', addresses') :=
      if indep && (index mod 128 =? 0) then next_addresses inb else (inb, addresses) in
    let random := if indep then getw addresses' (Z.to_nat (index mod 128)) else getw (getb B prev) 0 in
    let newOffset := indexAlpha random lanes segments threads n slice lane index in
    let newblock := process_block (getb B offset) (getb B prev) (getb B newOffset) (negb (version =? 16)) in
    segment_loop k' (setb B (Z.to_nat offset) newblock) mode version time memory lanes segments threads n slice lane
                 indep inb' addresses' (index + 1) (u32 (offset + 1))
  end.

Definition processSegment (B : mem) (mode version time memory lanes segments threads n slice lane : Z) : mem :=
  let indep := (mode =? Argon2i) || ((mode =? Argon2id) && (n =? 0) && (slice <? 2)) in
  let inb0 := if indep
              then [n; lane; slice; memory; time; mode] ++ repeat 0 122
              else zero_block in
  let first := (n =? 0) && (slice =? 0) in
  let index0 := if first then 2 else 0 in
  let '(inb1, addr1) := if first && ((mode =? Argon2i) || (mode =? Argon2id))
                        then next_addresses inb0 else (inb0, zero_block) in
  let offset := u32 (u32 (lane * lanes) + u32 (slice * segments) + index0) in
  segment_loop (Z.to_nat (segments - index0)) B mode version time memory lanes segments threads n slice lane
               indep inb1 addr1 index0 offset.

(* processBlocks, lane after lane (any interleaving of the lanes of one slice gives the same memory: C09) *)
Definition processBlocks (B : mem) (time memory threads mode version : Z) : mem :=
  let lanes := memory / threads in
  let segments := lanes / 4 in
  fold_left (fun B n =>
    fold_left (fun B slice =>
      fold_left (fun B lane => processSegment B mode version time memory lanes segments threads n slice lane)
                (map Z.of_nat (seq 0 (Z.to_nat threads))) B)
      [0; 1; 2; 3] B)
    (map Z.of_nat (seq 0 (Z.to_nat time))) B.

Definition extractKey (B : mem) (memory threads keyLen : Z) : bytes :=
  let lanes := memory / threads in
  let last := fold_left (fun acc lane => xor_blocks acc (getb B (lane * lanes + lanes - 1)))
                        (map Z.of_nat (seq 0 (Z.to_nat (threads - 1)))) (getb B (memory - 1)) in
  Hprime keyLen (bytes_of_block last).

Definition Key (mode version : Z) (pw salt : bytes) (time memory threads keyLen : Z) : bytes :=
  let h0 := initHash pw salt time memory threads keyLen mode version in
  let memory1 := u32 (memory / (4 * threads) * (4 * threads)) in
  let memory2 := if memory1 <? 2 * 4 * threads then 2 * 4 * threads else memory1 in
  let B := initBlocks h0 memory2 threads in
  let B' := processBlocks B time memory2 threads mode version in
  extractKey B' memory2 threads keyLen.
End A.
