(* C09, part 4 (R4): all passes and slices.
   Any execution that interleaves the lane tasks arbitrarily WITHIN each slice but runs the slices (n, slice) in the
   order of Argon2.processBlocks (which is what the WaitGroup join enforces, see waitgroup_joined / waitgroup_quiescent)
   produces the memory of Argon2.processBlocks, the lane-after-lane model.

     sliced_schedule                the executions considered
     sliced_schedule_sequential     they include the sequential one
     processBlocks_any_schedule     R4 for explicit lanes/segments
     processBlocks_any_schedule'    R4 with lanes, segments computed as in the Go code (memory/threads, lanes/4)
     key_any_schedule               R4 for the memory size and initial blocks that Argon2.Key really uses
   No axiom is used. *)
Require Import GC.Base.Bytes GC.Kdf.Argon2 GC.Kdf.Argon2Index GC.Kdf.Argon2Sched GC.Kdf.Argon2SchedProofs
               GC.Kdf.Argon2Refine.
From Coq Require Import Permutation.

(* the (pass, slice) pairs in the order of processBlocks *)
Definition pass_slices (time : Z) : list (Z * Z) :=
  flat_map (fun n => map (fun s => (n, s)) [0; 1; 2; 3]) (map Z.of_nat (seq 0 (Z.to_nat time))).

(* the parameter domain that does not depend on (n, slice) *)
Definition mem_params_ok (lanes segments threads : Z) : Prop :=
  2 <= segments /\ lanes = 4 * segments /\ 1 <= threads <= 255 /\ threads * lanes <= 2 ^ 32 - 1.

Section All.
  Variables mode version time memory lanes segments threads : Z.

  Definition tasks_of (n slice : Z) : list (list step) :=
    slice_tasks (model_G version) (model_rnd mode time memory n slice) lanes segments threads n slice.

  (* sigma = sigma_1 ++ sigma_2 ++ ... with sigma_i an arbitrary interleaving of the lane tasks of the i-th (n, slice) *)
  Inductive sliced_schedule : list (Z * Z) -> list step -> Prop :=
  | ss_nil : sliced_schedule [] []
  | ss_cons : forall n slice rest sigma tau,
      interleaving sigma (tasks_of n slice) ->
      sliced_schedule rest tau ->
      sliced_schedule ((n, slice) :: rest) (sigma ++ tau).

  (* the sequential execution is one of them *)
  Lemma sliced_schedule_sequential ps :
    sliced_schedule ps (concat (map (fun p => concat (tasks_of (fst p) (snd p))) ps)).
  Proof.
    induction ps as [|[n s] ps IH]; [constructor|].
    cbn [map concat fst snd]. constructor; [apply interleaving_concat | exact IH].
  Qed.

  Definition slices_fold (ps : list (Z * Z)) (B : Argon2.mem) : Argon2.mem :=
    fold_left (fun B p => process_slice B mode version time memory lanes segments threads (fst p) (snd p)) ps B.

  Hypothesis Hmp : mem_params_ok lanes segments threads.

  Lemma slice_ok n slice : 0 <= n -> 0 <= slice < 4 -> slice_params_ok lanes segments threads n slice.
  Proof. intros Hn Hs. destruct Hmp as (H1 & H2 & H3 & H4). unfold slice_params_ok. repeat split; lia. Qed.

  Definition pairs_ok (ps : list (Z * Z)) : Prop := forall n s, In (n, s) ps -> 0 <= n /\ 0 <= s < 4.

  Lemma sliced_schedule_local ps tau :
    sliced_schedule ps tau -> pairs_ok ps -> forall s, In s tau -> step_local s.
  Proof.
    induction 1 as [|n slice rest sigma tau Hil Hrest IH]; intros Hok s Hs; [destruct Hs|].
    apply in_app_or in Hs. destruct Hs as [Hs|Hs].
    - destruct (Hok n slice (or_introl eq_refl)) as [Hn Hsl].
      pose proof (Permutation_in _ (interleaving_permutation _ _ Hil) Hs) as Hc.
      apply in_concat in Hc. destruct Hc as [T [HT HsT]].
      destruct (argon2_slice_tasks_independent (model_G version) (model_rnd mode time memory n slice)
                  lanes segments threads n slice (slice_ok n slice Hn Hsl) (model_rnd_ok mode time memory n slice))
        as [Hloc _].
      exact (Hloc T HT s HsT).
    - apply IH; [|exact Hs]. intros n' s' Hin. apply Hok. right. exact Hin.
  Qed.

  Lemma sliced_schedule_refines ps sigma :
    sliced_schedule ps sigma -> pairs_ok ps ->
    forall B : Argon2.mem, threads * lanes <= Z.of_nat (length B) ->
    length (slices_fold ps B) = length B /\
    meq (runs sigma (abs B)) (abs (slices_fold ps B)).
  Proof.
    induction 1 as [|n slice rest sigma tau Hil Hrest IH]; intros Hok B Hlen.
    - split; [reflexivity | apply meq_refl].
    - destruct (Hok n slice (or_introl eq_refl)) as [Hn Hsl].
      assert (Hok' : pairs_ok rest) by (intros n' s' Hin; apply Hok; right; exact Hin).
      pose proof (slice_ok n slice Hn Hsl) as Hpar.
      destruct (slice_refines mode version time memory lanes segments threads n slice Hpar B Hlen) as [Elen _].
      pose proof (slice_any_schedule mode version time memory lanes segments threads n slice Hpar B sigma Hlen Hil) as E1.
      unfold slices_fold. cbn [fold_left fst snd].
      set (B1 := process_slice B mode version time memory lanes segments threads n slice) in *.
      destruct (IH Hok' B1) as [IHlen IHmeq]; [rewrite Elen; exact Hlen|].
      fold (slices_fold rest B1).
      split; [rewrite IHlen; exact Elen|].
      rewrite runs_app.
      eapply meq_trans; [|exact IHmeq].
      apply runs_meq; [|exact E1].
      exact (sliced_schedule_local rest tau Hrest Hok').
  Qed.
End All.

(* processBlocks as a fold over pass_slices *)
Lemma fold_passes {A} (P : A -> Z -> Z -> A) : forall (l : list Z) (B : A),
  fold_left (fun B n => fold_left (fun B s => P B n s) [0; 1; 2; 3] B) l B =
  fold_left (fun B p => P B (fst p) (snd p)) (flat_map (fun n => map (fun s => (n, s)) [0; 1; 2; 3]) l) B.
Proof.
  induction l as [|a l IH]; intros B; [reflexivity|].
  cbn [flat_map]. rewrite fold_left_app. cbn [fold_left]. rewrite IH. reflexivity.
Qed.

Lemma processBlocks_pass_slices (B : Argon2.mem) time memory threads mode version :
  processBlocks B time memory threads mode version =
  slices_fold mode version time memory (memory / threads) (memory / threads / 4) threads (pass_slices time) B.
Proof.
  rewrite processBlocks_slices. unfold slices_fold, pass_slices.
  apply (fold_passes (fun B n s => process_slice B mode version time memory (memory / threads) (memory / threads / 4) threads n s)).
Qed.

Lemma pass_slices_ok time : pairs_ok (pass_slices time).
Proof.
  intros n s Hin. unfold pass_slices in Hin. apply in_flat_map in Hin.
  destruct Hin as [n' [Hn' Hin]]. apply in_map_iff in Hn'. destruct Hn' as [k [<- _]].
  apply in_map_iff in Hin. destruct Hin as [s' [E Hs']]. inversion E; subst.
  split; [lia|]. cbn in Hs'. lia.
Qed.

(* R4, explicit lanes and segments *)
Theorem processBlocks_any_schedule mode version time memory lanes segments threads (B : Argon2.mem) sigma :
  lanes = memory / threads -> segments = lanes / 4 ->
  mem_params_ok lanes segments threads ->
  threads * lanes <= Z.of_nat (length B) ->
  sliced_schedule mode version time memory lanes segments threads (pass_slices time) sigma ->
  length (processBlocks B time memory threads mode version) = length B /\
  meq (runs sigma (abs B)) (abs (processBlocks B time memory threads mode version)).
Proof.
  intros -> -> Hmp Hlen Hsched.
  rewrite processBlocks_pass_slices.
  exact (sliced_schedule_refines mode version time memory _ _ threads Hmp _ _ Hsched (pass_slices_ok time) B Hlen).
Qed.

(* memory = threads * 4 * q  gives  lanes = 4 * q, segments = q *)
Lemma lanes_segments_of memory threads q :
  1 <= threads -> memory = threads * (4 * q) -> memory / threads = 4 * q /\ memory / threads / 4 = q.
Proof.
  intros Ht ->. rewrite (Z.mul_comm threads), Z.div_mul by lia.
  split; [reflexivity|]. rewrite (Z.mul_comm 4), Z.div_mul by lia. reflexivity.
Qed.

(* R4 in terms of the Go-level parameters: memory a multiple of 4*threads, at least 8*threads, below 2^32 *)
Theorem processBlocks_any_schedule' mode version time memory threads q (B : Argon2.mem) sigma :
  1 <= threads <= 255 -> 2 <= q -> memory = threads * (4 * q) -> memory <= 2 ^ 32 - 1 ->
  memory <= Z.of_nat (length B) ->
  sliced_schedule mode version time memory (memory / threads) (memory / threads / 4) threads (pass_slices time) sigma ->
  length (processBlocks B time memory threads mode version) = length B /\
  meq (runs sigma (abs B)) (abs (processBlocks B time memory threads mode version)).
Proof.
  intros Ht Hq Hm Hmax Hlen Hsched.
  destruct (lanes_segments_of memory threads q) as [El Es]; [lia | exact Hm |].
  apply (processBlocks_any_schedule mode version time memory (memory / threads) (memory / threads / 4) threads B sigma);
    try reflexivity; try exact Hsched.
  - unfold mem_params_ok. rewrite Es, El. repeat split; try lia.
  - rewrite El. lia.
Qed.

(* ------------------------------------------------------------------------- *)
(* The instance used by Argon2.Key                                             *)
(* ------------------------------------------------------------------------- *)

(* the let-bound memory2 of Argon2.Key *)
Definition key_memory (memory threads : Z) : Z :=
  let memory1 := u32 (memory / (4 * threads) * (4 * threads)) in
  if memory1 <? 2 * 4 * threads then 2 * 4 * threads else memory1.

Lemma key_memory_shape memory threads :
  1 <= threads <= 255 -> 0 <= memory < 2 ^ 32 ->
  exists q, 2 <= q /\ key_memory memory threads = threads * (4 * q) /\ key_memory memory threads <= 2 ^ 32 - 1.
Proof.
  intros Ht Hm. unfold key_memory. cbv zeta.
  set (q := memory / (4 * threads)).
  assert (Hq0 : 0 <= q) by (unfold q; apply Z.div_pos; lia).
  assert (Hle : 4 * threads * q <= memory) by (unfold q; apply Z.mul_div_le; lia).
  assert (Hnn : 0 <= q * (4 * threads)) by (apply Z.mul_nonneg_nonneg; lia).
  rewrite (u32_small (q * (4 * threads))) by lia.
  destruct (q * (4 * threads) <? 2 * 4 * threads) eqn:E; [apply Z.ltb_lt in E | apply Z.ltb_ge in E].
  - exists 2. repeat split; lia.
  - exists q. repeat split; try lia. nia.
Qed.

Section Key.
  Variable B2 : Z -> bytes -> bytes.

  Lemma Key_unfold mode version pw salt time memory threads keyLen :
    Key B2 mode version pw salt time memory threads keyLen =
    let m2 := key_memory memory threads in
    let B := initBlocks B2 (initHash B2 pw salt time memory threads keyLen mode version) m2 threads in
    extractKey B2 (processBlocks B time m2 threads mode version) m2 threads keyLen.
  Proof. reflexivity. Qed.

  Lemma initBlocks_length h0 memory threads : length (initBlocks B2 h0 memory threads) = Z.to_nat memory.
  Proof.
    unfold initBlocks.
    assert (H : forall (l : list Z) (B : Argon2.mem),
               length (fold_left (fun B lane =>
                  let j := u32 (lane * (memory / threads)) in
                  let b0 := block_of_bytes (Hprime B2 1024 (h0 ++ le_bytes 4 0 ++ le_bytes 4 lane)) in
                  let b1 := block_of_bytes (Hprime B2 1024 (h0 ++ le_bytes 4 1 ++ le_bytes 4 lane)) in
                  setb (setb B (Z.to_nat j) b0) (Z.to_nat (j + 1)) b1) l B) = length B).
    { induction l as [|a l IH]; intros B; [reflexivity|].
      cbn [fold_left]. rewrite IH. cbv zeta. rewrite !setb_length. reflexivity. }
    rewrite H. apply repeat_length.
  Qed.

  (* R4 for the memory that Key allocates and fills: every sliced schedule computes the blocks from which
     Key extracts the tag *)
  Theorem key_any_schedule mode version pw salt time memory threads keyLen sigma :
    1 <= threads <= 255 -> 0 <= memory < 2 ^ 32 ->
    let m2 := key_memory memory threads in
    let B := initBlocks B2 (initHash B2 pw salt time memory threads keyLen mode version) m2 threads in
    sliced_schedule mode version time m2 (m2 / threads) (m2 / threads / 4) threads (pass_slices time) sigma ->
    meq (runs sigma (abs B)) (abs (processBlocks B time m2 threads mode version)) /\
    Key B2 mode version pw salt time memory threads keyLen =
    extractKey B2 (processBlocks B time m2 threads mode version) m2 threads keyLen.
  Proof.
    intros Ht Hm m2 B Hsched. split; [|reflexivity].
    destruct (key_memory_shape memory threads Ht Hm) as [q [Hq [E Hmax]]]. fold m2 in E, Hmax.
    apply (processBlocks_any_schedule' mode version time m2 threads q B sigma); try assumption.
    unfold B. rewrite initBlocks_length. assert (0 <= m2) by nia. lia.
  Qed.
End Key.

(* the two addressing modes of model_rnd *)
Lemma model_rnd_data_independent mode time memory n slice lane index b b' :
  indep_of mode n slice = true ->
  model_rnd mode time memory n slice lane index b = model_rnd mode time memory n slice lane index b'.
Proof. intros H. unfold model_rnd. rewrite H. reflexivity. Qed.

Lemma model_rnd_data_dependent mode time memory n slice lane index b :
  indep_of mode n slice = false ->
  model_rnd mode time memory n slice lane index b = u64 (getw b 0).
Proof. intros H. unfold model_rnd. rewrite H. reflexivity. Qed.

Check sliced_schedule_sequential.
Check sliced_schedule_refines.
Check processBlocks_any_schedule.
Check processBlocks_any_schedule'.
Check key_any_schedule.
Print Assumptions sliced_schedule_sequential.
Print Assumptions sliced_schedule_refines.
Print Assumptions processBlocks_pass_slices.
Print Assumptions processBlocks_any_schedule.
Print Assumptions processBlocks_any_schedule'.
Print Assumptions key_memory_shape.
Print Assumptions key_any_schedule.
