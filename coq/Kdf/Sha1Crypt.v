(* sha1/sha1.go: the derivation inside Key (after the guards).  HM key data = HMAC-SHA1(key, data). *)
Require Import GC.Base.Bytes GC.Kdf.KdfBase GC.Codec.Strconv.

Section S.
Variable HM : bytes -> bytes -> bytes.
Variable prefix permFinal : bytes.

(* for rounds--; rounds > 0; rounds-- { h.Reset(); h.Write(b[:]); h.Sum(b[:0]) } *)
Fixpoint iterate (n : nat) (pw b : bytes) : bytes :=
  match n with O => b | S n' => iterate n' pw (HM pw b) end.

Definition Key (pw salt : bytes) (rounds : Z) : option bytes :=
  let b := HM pw (salt ++ prefix ++ FormatUint rounds 10) in
  permute (iterate (Z.to_nat (rounds - 1)) pw b) permFinal.

(* NetBSD crypt-sha1: hmac_sha1(pw, salt || "$sha1$" || decimal(iterations)), then iterations-1 further HMACs
   of the previous digest; output order given by the 21-entry permutation (last group wraps to byte 0) *)
Fixpoint spec_iter (n : nat) (pw b : bytes) : bytes :=
  match n with O => b | S n' => HM pw (spec_iter n' pw b) end.
Definition spec_Key (pw salt : bytes) (rounds : Z) : option bytes :=
  permute (spec_iter (Z.to_nat (rounds - 1)) pw (HM pw (salt ++ prefix ++ FormatUint rounds 10))) permFinal.
End S.
