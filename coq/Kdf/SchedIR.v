(* The goroutine structure of argon2crypto.processBlocks as data (target of harness/cmd/harness/gen_sched.go ->
   Generated/Gen_sched.v) and its meaning: the parent's events in program order. *)
Require Import GC.Base.Bytes.

Inductive sbound := Btime | BsyncPoints | Bthreads | Bother.
Inductive sstmt :=
| SFor (b : sbound) (body : list sstmt)   (* for v := uint32(0); v < b; v++ { body } *)
| SNewWg                                  (* var wg sync.WaitGroup *)
| SAdd (k : Z)                            (* wg.Add(k) *)
| SGo (args : list nat)                   (* go processSegment(<loop variables, by nesting depth>, &wg) *)
| SWait                                   (* wg.Wait() *)
| SOther.

Inductive pevent :=
| PNew | PAdd (k : Z) | PGo (args : list Z) | PWait.

Definition zrange (n : Z) : list Z := map Z.of_nat (seq 0 (Z.to_nat n)).

Section Exec.
  Variables (time syncPoints threads : Z).
  Definition bval (b : sbound) : Z :=
    match b with Btime => time | BsyncPoints => syncPoints | Bthreads => threads | Bother => 0 end.

  Fixpoint exec (env : list Z) (s : sstmt) {struct s} : list pevent :=
    match s with
    | SFor b body =>
      flat_map (fun i => (fix go (l : list sstmt) : list pevent :=
                            match l with [] => [] | x :: r => exec (env ++ [i]) x ++ go r end) body)
               (zrange (bval b))
    | SNewWg => [PNew]
    | SAdd k => [PAdd k]
    | SGo args => [PGo (map (fun d => nth d env (-1)) args)]
    | SWait => [PWait]
    | SOther => []
    end.
  Definition execs (env : list Z) (l : list sstmt) : list pevent := flat_map (exec env) l.
End Exec.
