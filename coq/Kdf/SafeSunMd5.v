(* C05 for sunmd5/sunmd5.go: every digest[...] / ind7[...] access of the round function is in range.
   CHECKED variants of Kdf/SunMd5.v (None = Go would panic with index out of range) and X_chk = Some X.

   Hypotheses needed (and no others):
     - the digest has 16 entries (md5.Size; for the rounds: H returns 16 entries for every input);
     - for Key: the entries of permFinal are in 0..15.
   NOT needed: any range for the digest bytes or for the round index i.  Every index is of the form
   x & 0x0F, (x % 128) / 8, (j+3) % 16 or a loop counter 0..15, and these are in 0..15 for every integer x
   (so a fortiori for bytes 0..255 and i >= 0, the case the task asks for: see round_chk_ok_bytes). *)
Require Import GC.Base.Bytes GC.Kdf.KdfBase GC.Kdf.KdfBaseProofs GC.Kdf.SafeBase GC.Codec.Strconv GC.Kdf.SunMd5
  GC.Schemes.Consts.

Arguments Z.add : simpl never.
Arguments Z.sub : simpl never.
Arguments Z.mul : simpl never.
Arguments Z.of_nat : simpl never.
Arguments Z.shiftr : simpl never.
Arguments Z.shiftl : simpl never.
Arguments Z.land : simpl never.
Arguments Z.lor : simpl never.
Arguments Z.lxor : simpl never.
Arguments Z.to_nat : simpl never.
Arguments Z.modulo : simpl never.
Arguments Z.div : simpl never.

Section S.
Variable H : bytes -> bytes.
Variable phrase permFinal : bytes.

(* ---------------------------------------------------------------- checked definitions *)
(* digest[k] *)
Definition dig_chk (digest : bytes) (k : Z) : option Z := idx_chk digest k.

(* off %= 128; digest[off/8] & (1 << (off%8)) *)
Definition bit_chk (digest : bytes) (off : Z) : option Z :=
  let o := off mod 128 in
  do d <- dig_chk digest (o / 8);
  Some (if negb (Z.land d (Z.shiftl 1 (o mod 8)) =? 0) then 1 else 0).

(* ind7[j] = (digest[ind4] >> sh7) & 0x7F: the three digest lookups, and ind7[j] itself (ind7 is a [16]byte) *)
Definition ind7_chk (digest : bytes) (j : Z) : option Z :=
  if (0 <=? j) && (j <? 16) then
    let off := (j + 3) mod 16 in
    do dj <- dig_chk digest j;
    do doff <- dig_chk digest off;
    let ind4 := Z.land (Z.shiftr dj (doff mod 5)) 15 in
    let sh7 := Z.land (Z.shiftr doff (dj mod 8)) 1 in
    do d4 <- dig_chk digest ind4;
    Some (Z.land (Z.shiftr d4 sh7) 127)
  else None.

Definition gather_step_chk (digest : bytes) (base : Z) (acc : option Z) (j : Z) : option Z :=
  do a <- acc; do x <- ind7_chk digest (base + j); do b <- bit_chk digest x; Some (Z.lor a (Z.shiftl b j)).
Definition gather_chk (digest : bytes) (base : Z) : option Z :=
  fold_left (gather_step_chk digest base) [0;1;2;3;4;5;6;7] (Some 0).

Definition coin_chk (digest : bytes) (i : Z) : option bool :=
  do gA <- gather_chk digest 0;
  do bi <- bit_chk digest i;
  let indA := Z.land (Z.shiftr gA bi) 127 in
  do gB <- gather_chk digest 8;
  do bi64 <- bit_chk digest (u32 (i + 64));
  let indB := Z.land (Z.shiftr gB bi64) 127 in
  do ba <- bit_chk digest indA;
  do bb <- bit_chk digest indB;
  Some (Z.lxor ba bb =? 1).

Definition round_chk (digest : bytes) (i : Z) : option bytes :=
  do c <- coin_chk digest i;
  Some (H (digest ++ (if c then phrase else []) ++ FormatUint i 10)).

Fixpoint rounds_chk (n : nat) (digest : bytes) (i : Z) : option bytes :=
  match n with O => Some digest | S n' => do d <- round_chk digest i; rounds_chk n' d (i + 1) end.

Definition Key_chk (pw saltString : bytes) (nrounds basic : Z) : option bytes :=
  let total := u32 (nrounds + basic) in
  do d <- rounds_chk (Z.to_nat total) (H (pw ++ saltString)) 0;
  permute d permFinal.

(* ---------------------------------------------------------------- proofs *)
Lemma dig_chk_ok : forall digest k, length digest = 16%nat -> 0 <= k < 16 -> dig_chk digest k = Some (dig digest k).
Proof. intros digest k L Hk. unfold dig_chk, dig. apply idx_chk_some. rewrite L. lia. Qed.

(* (off % 128) / 8 <= 15 for every off *)
Lemma mod128_div8_range : forall off, 0 <= (off mod 128) / 8 < 16.
Proof.
  intros off. pose proof (Z.mod_pos_bound off 128 ltac:(lia)) as B. split.
  - apply Z.div_pos; lia.
  - apply Z.div_lt_upper_bound; lia.
Qed.

Lemma bit_chk_ok : forall digest off, length digest = 16%nat -> bit_chk digest off = Some (bit digest off).
Proof.
  intros digest off L. unfold bit_chk, bit. cbv zeta.
  rewrite dig_chk_ok by (try assumption; apply mod128_div8_range). reflexivity.
Qed.

Lemma ind7_chk_ok : forall digest j, length digest = 16%nat -> 0 <= j < 16 ->
  ind7_chk digest j = Some (ind7 digest j).
Proof.
  intros digest j L Hj. unfold ind7_chk, ind7. cbv zeta.
  destruct (Z.leb_spec 0 j); try lia. destruct (Z.ltb_spec j 16); try lia. cbn [andb].
  rewrite (dig_chk_ok digest j) by assumption. cbn [obind].
  rewrite (dig_chk_ok digest ((j + 3) mod 16)) by (try assumption; apply Z.mod_pos_bound; lia). cbn [obind].
  rewrite dig_chk_ok by (try assumption; apply land_15_range). reflexivity.
Qed.

Lemma gather_fold_ok : forall digest base l acc, length digest = 16%nat ->
  (forall j, In j l -> 0 <= base + j < 16) ->
  fold_left (gather_step_chk digest base) l (Some acc)
  = Some (fold_left (fun acc j => Z.lor acc (Z.shiftl (bit digest (ind7 digest (base + j))) j)) l acc).
Proof.
  intros digest base l; induction l as [|j l IH]; intros acc L Hl; [reflexivity|].
  cbn [fold_left]. unfold gather_step_chk at 2. cbn [obind].
  rewrite ind7_chk_ok by (try assumption; apply Hl; now left). cbn [obind].
  rewrite bit_chk_ok by assumption. cbn [obind].
  apply IH; [assumption|]. intros; apply Hl; now right.
Qed.

Lemma gather_chk_ok : forall digest base, length digest = 16%nat -> 0 <= base <= 8 ->
  gather_chk digest base = Some (gather digest base).
Proof.
  intros digest base L Hb. unfold gather_chk, gather. apply gather_fold_ok; [assumption|].
  intros j Hj. cbn [In] in Hj. lia.
Qed.

Lemma coin_chk_ok : forall digest i, length digest = 16%nat -> coin_chk digest i = Some (coin digest i).
Proof.
  intros digest i L. unfold coin_chk, coin. cbv zeta.
  rewrite !gather_chk_ok by (try assumption; lia). cbn [obind].
  repeat (rewrite bit_chk_ok by assumption; cbn [obind]). reflexivity.
Qed.

(* (2a) one round: every digest access in range, for EVERY 16-entry digest and EVERY round index *)
Theorem round_chk_ok : forall digest i, length digest = 16%nat ->
  round_chk digest i = Some (round H phrase digest i).
Proof. intros digest i L. unfold round_chk, round. now rewrite coin_chk_ok by assumption. Qed.

(* the statement in the form asked for (bytes 0..255, i >= 0): a special case *)
Corollary round_chk_ok_bytes : forall digest i, length digest = 16%nat -> Forall (fun b => 0 <= b < 256) digest -> 0 <= i ->
  round_chk digest i = Some (round H phrase digest i).
Proof. intros; now apply round_chk_ok. Qed.

Hypothesis H_len : forall x, length (H x) = 16%nat.

Lemma round_length : forall digest i, length (round H phrase digest i) = 16%nat.
Proof. intros; unfold round; apply H_len. Qed.

Lemma rounds_length : forall n digest i, length digest = 16%nat -> length (rounds H phrase n digest i) = 16%nat.
Proof.
  intros n; induction n as [|n IH]; intros digest i L; [assumption|].
  cbn [rounds]. apply IH. apply round_length.
Qed.

Lemma rounds_chk_ok : forall n digest i, length digest = 16%nat ->
  rounds_chk n digest i = Some (rounds H phrase n digest i).
Proof.
  intros n; induction n as [|n IH]; intros digest i L; [reflexivity|].
  cbn [rounds_chk rounds]. rewrite round_chk_ok by assumption. cbn [obind]. apply IH. apply round_length.
Qed.

(* (2b) Key: the checked derivation is the modelled one (whose only remaining check is cryptoutil.Permute) ... *)
Theorem Key_chk_ok : forall pw saltString nrounds basic,
  Key_chk pw saltString nrounds basic = Key H phrase permFinal pw saltString nrounds basic.
Proof.
  intros. unfold Key_chk, Key. cbv zeta. rewrite rounds_chk_ok by apply H_len. reflexivity.
Qed.

(* ... and that one succeeds too when permFinal indexes below 16: no index of Key is ever out of range *)
Theorem Key_chk_total : Forall (fun j => 0 <= j < 16) permFinal -> forall pw saltString nrounds basic,
  exists k, Key_chk pw saltString nrounds basic = Some k /\
            Key H phrase permFinal pw saltString nrounds basic = Some k /\ length k = length permFinal.
Proof.
  intros HP pw saltString nrounds basic. rewrite Key_chk_ok. unfold Key. cbv zeta.
  set (d := rounds H phrase _ _ 0).
  assert (L : length d = 16%nat) by (apply rounds_length, H_len).
  destruct (permute_some d permFinal) as (k & E & Lk).
  - rewrite L. exact HP.
  - exists k. auto.
Qed.
End S.

(* ---------------------------------------------------------------- the committed constants *)
Lemma m_sunmd5_permFinal_range : Forall (fun j => 0 <= j < 16) m_sunmd5_permFinal.
Proof. unfold m_sunmd5_permFinal. repeat constructor; lia. Qed.

Theorem sunmd5_round_safe : forall (H : bytes -> bytes) (digest : bytes) (i : Z), length digest = 16%nat ->
  round_chk H m_sunmd5_phrase digest i = Some (round H m_sunmd5_phrase digest i).
Proof. intros; now apply round_chk_ok. Qed.

Theorem sunmd5_Key_safe : forall (H : bytes -> bytes), (forall x, length (H x) = 16%nat) ->
  forall (pw saltString : bytes) (nrounds : Z),
  exists k, Key_chk H m_sunmd5_phrase m_sunmd5_permFinal pw saltString nrounds m_sunmd5_BasicRounds = Some k /\
            Key H m_sunmd5_phrase m_sunmd5_permFinal pw saltString nrounds m_sunmd5_BasicRounds = Some k /\
            length k = 16%nat.
Proof.
  intros H HL pw saltString nrounds.
  destruct (Key_chk_total H m_sunmd5_phrase m_sunmd5_permFinal HL m_sunmd5_permFinal_range pw saltString nrounds
              m_sunmd5_BasicRounds) as (k & E1 & E2 & L).
  exists k. repeat split; assumption.
Qed.

(* ---------------------------------------------------------------- the checks are not vacuous *)
(* a 15-byte digest (what a truncating hash would return) does make the checked round fail, while a 16-byte one of the
   same bytes succeeds: the length hypothesis is the one that matters *)
Lemma round_chk_detects_short_digest :
  round_chk (fun x => x) [] (repeat 255 15) 0 = None /\
  round_chk (fun x => firstn 16 x) [] (repeat 255 16) 0 = Some (round (fun x => firstn 16 x) [] (repeat 255 16) 0) /\
  (* non-byte entries and negative round indices do not matter *)
  round_chk (fun x => firstn 16 x) [1] (repeat (-77) 16) (-5) = Some (round (fun x => firstn 16 x) [1] (repeat (-77) 16) (-5)) /\
  ind7_chk (repeat 0 16) 16 = None /\ dig_chk (repeat 0 16) 16 = None /\ dig_chk (repeat 0 16) (-1) = None.
Proof. vm_compute. repeat apply conj; reflexivity. Qed.

(* a concrete multi-round run through a toy 16-byte "hash" *)
Lemma sunmd5_concrete :
  let Ht := fun x : bytes => map (fun k => (fold_left Z.add x (Z.of_nat k * 37) * 31 + Z.of_nat k) mod 256) (seq 0 16) in
  Key_chk Ht m_sunmd5_phrase m_sunmd5_permFinal [112;119] [36;109;100;53;36;97;98;36] 0 40
  = Key Ht m_sunmd5_phrase m_sunmd5_permFinal [112;119] [36;109;100;53;36;97;98;36] 0 40
  /\ Key_chk Ht m_sunmd5_phrase m_sunmd5_permFinal [112;119] [36;109;100;53;36;97;98;36] 0 40 <> None.
Proof. vm_compute. split; [reflexivity|discriminate]. Qed.

Check round_chk_ok.
Check round_chk_ok_bytes.
Check rounds_chk_ok.
Check Key_chk_ok.
Check Key_chk_total.
Check sunmd5_round_safe.
Check sunmd5_Key_safe.

Print Assumptions round_chk_ok.
Print Assumptions round_chk_ok_bytes.
Print Assumptions rounds_chk_ok.
Print Assumptions Key_chk_ok.
Print Assumptions Key_chk_total.
Print Assumptions sunmd5_round_safe.
Print Assumptions sunmd5_Key_safe.
Print Assumptions round_chk_detects_short_digest.
Print Assumptions sunmd5_concrete.
