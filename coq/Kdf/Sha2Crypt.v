(* sha256/sha2crypt/sha2crypt.go: Encrypt and duplicate, literally (with the repaired decrement).
   H = the chosen SHA-2 function over the concatenation of everything written; hs = its digest size. *)
Require Import GC.Base.Bytes GC.Kdf.KdfBase.

Section S.
Variable H : bytes -> bytes.
Variable hs : Z.                         (* h.Size(): 32 or 64 *)

(* for i = len(password); i > h.Size(); i -= h.Size() { ha.Write(db) }; ha.Write(db[:i]) *)
Fixpoint loopA (fuel : nat) (db : bytes) (i : Z) (acc : bytes) : option bytes :=
  match fuel with
  | O => None
  | S f => if hs <? i then loopA f db (i - hs) (acc ++ db)
           else do x <- sl db 0 i; Some (acc ++ x)
  end.

(* for i := len(password); i > 0; i >>= 1 { if i&1 != 0 { ha.Write(db) } else { ha.Write(password) } } *)
Fixpoint loopB (fuel : nat) (db pw : bytes) (i : Z) (acc : bytes) : option bytes :=
  match fuel with
  | O => if i <=? 0 then Some acc else None
  | S f => if i <=? 0 then Some acc
           else loopB f db pw (Z.shiftr i 1) (acc ++ (if negb (Z.land i 1 =? 0) then db else pw))
  end.

(* duplicate(h, b, n): for i = n; i >= h.Size(); i -= h.Size() { r = append(r, b[:h.Size()]...) }; r = append(r, b[:i]...) *)
Fixpoint dup_loop (fuel : nat) (b : bytes) (i : Z) (acc : bytes) : option bytes :=
  match fuel with
  | O => None
  | S f => if hs <=? i then do x <- sl b 0 hs; dup_loop f b (i - hs) (acc ++ x)
           else do x <- sl b 0 i; Some (acc ++ x)
  end.
Definition duplicate (b : bytes) (n : Z) : option bytes := dup_loop (S (Z.to_nat n)) b n [].

Fixpoint repeat_bytes (n : nat) (s : bytes) : bytes := match n with O => [] | S k => s ++ repeat_bytes k s end.

(* one round of the main loop; i is the uint32 counter, first = da for i = 0 *)
Definition round (pwlen : Z) (p s first dp : bytes) (i : Z) : option bytes :=
  let odd := negb (Z.land i 1 =? 0) in
  let cur := if i =? 0 then first else dp in
  let tail := (if negb (i mod 3 =? 0) then s else []) ++ (if negb (i mod 7 =? 0) then p else [])
              ++ (if odd then cur else p) in
  if odd then do phead <- sl p 0 pwlen; Some (H (phead ++ tail))
  else Some (H (cur ++ tail)).

Fixpoint rounds (n : nat) (pwlen : Z) (p s first dp : bytes) (i : Z) : option bytes :=
  match n with
  | O => Some dp
  | S n' => do dp' <- round pwlen p s first dp i; rounds n' pwlen p s first dp' (i + 1)
  end.

Definition Encrypt (pw salt : bytes) (nrounds : Z) (permutation : bytes) : option bytes :=
  let db := H (pw ++ salt ++ pw) in
  do a1 <- loopA (S (length pw)) db (lenZ pw) (pw ++ salt);
  do a2 <- loopB (S (length pw)) db pw (lenZ pw) a1;
  let da := H a2 in
  let dp := H (repeat_bytes (length pw) pw) in
  do p <- duplicate dp (lenZ pw);
  let ds := H (repeat_bytes (Z.to_nat (16 + nth 0 da 0)) salt) in
  do s <- duplicate ds (lenZ salt);
  do out <- rounds (Z.to_nat nrounds) (lenZ pw) p s da dp 0;
  permute out permutation.

(* ---- specification (Drepper, "Unix crypt using SHA-256 and SHA-512", steps 1-22) ---- *)
Fixpoint bits_lsb (fuel : nat) (n : Z) : list bool :=
  match fuel with
  | O => []
  | S f => if n <=? 0 then [] else negb (Z.land n 1 =? 0) :: bits_lsb f (Z.shiftr n 1)
  end.
Definition spec_round (p s prev : bytes) (i : Z) : bytes :=
  let odd := negb (Z.land i 1 =? 0) in
  H ((if odd then p else prev) ++ (if negb (i mod 3 =? 0) then s else []) ++ (if negb (i mod 7 =? 0) then p else [])
     ++ (if odd then prev else p)).
Fixpoint spec_rounds (n : nat) (p s prev : bytes) (i : Z) : bytes :=
  match n with O => prev | S n' => spec_rounds n' p s (spec_round p s prev i) (i + 1) end.
Definition spec_Encrypt (pw salt : bytes) (nrounds : Z) (permutation : bytes) : option bytes :=
  let B := H (pw ++ salt ++ pw) in                                              (* steps 4-8 *)
  let A := H (pw ++ salt ++ take_cyclic B (length pw)                            (* steps 1-3, 9-10 *)
              ++ flat_map (fun b : bool => if b then B else pw) (bits_lsb (S (length pw)) (lenZ pw))) in  (* 11-12 *)
  let DP := H (repeat_bytes (length pw) pw) in                                   (* 13-15 *)
  let P := take_cyclic DP (length pw) in                                         (* 16 *)
  let DS := H (repeat_bytes (Z.to_nat (16 + nth 0 A 0)) salt) in                 (* 17-19 *)
  let S := take_cyclic DS (length salt) in                                       (* 20 *)
  permute (spec_rounds (Z.to_nat nrounds) P S A 0) permutation.                  (* 21-22 *)
End S.
