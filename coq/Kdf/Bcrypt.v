(* bcrypt/bcrypt.go: encode + setup (after Key's guards and password rewriting, see Schemes/Keys.v).
   The Blowfish cipher state is abstract: NewSaltedCipher / ExpandKey / Encrypt are parameters. *)
Require Import GC.Base.Bytes GC.Kdf.KdfBase GC.Schemes.Encoders.

Definition magic : bytes := [79;114;112;104;101;97;110;66;101;104;111;108;100;101;114;83;99;114;121;68;111;117;98;116]. (* OrpheanBeholderScryDoubt *)

Section B.
Variable C : Type.
Variable bf_new : bytes -> bytes -> option C.        (* blowfish.NewSaltedCipher(key, salt); None = KeySizeError *)
Variable bf_expand : bytes -> C -> C.                (* blowfish.ExpandKey(key, c) *)
Variable bf_encrypt : C -> bytes -> bytes.           (* c.Encrypt(dst, src) on one 8-byte block *)
Variable alphabet : bytes.                           (* bcrypt.Encoding's alphabet *)

Fixpoint iter {A} (n : nat) (f : A -> A) (x : A) : A := match n with O => x | S k => iter k f (f x) end.

(* setup: for i, n := 0, 1<<cost; i < n; i++ { ExpandKey(key, c); ExpandKey(salt, c) } *)
Definition setup (key salt : bytes) (cost : Z) : option C :=
  match bf_new key salt with
  | Some c => Some (iter (Z.to_nat (2 ^ cost)) (fun c => bf_expand salt (bf_expand key c)) c)
  | None => None
  end.

(* for i := 0; i < 24; i += 8 { for j := 0; j < 64; j++ { c.Encrypt(b[i:i+8], b[i:i+8]) } }; return b[:23] *)
Definition encrypt_blocks (c : C) (b : bytes) : option bytes :=
  do b0 <- sl b 0 8; do b1 <- sl b 8 16; do b2 <- sl b 16 24;
  let e := iter 64 (bf_encrypt c) in
  sl (e b0 ++ e b1 ++ e b2) 0 23.

(* key: the rewritten password with its NUL terminator unless $2$; salt22: the 22 salt characters *)
Definition derive (key salt22 : bytes) (cost : Z) : option bytes :=
  let dec := be64_decode alphabet salt22 in
  match setup key dec cost with
  | Some c => encrypt_blocks c magic
  | None => None
  end.

(* Provos-Mazieres: state = EksBlowfishSetup(cost, salt, key); ctext = magic; repeat 64: ctext = ECB(state, ctext) *)
Definition ecb (c : C) (t : list bytes) : list bytes := map (bf_encrypt c) t.
Definition spec_derive (key salt22 : bytes) (cost : Z) : option bytes :=
  let dec := be64_decode alphabet salt22 in
  match bf_new key dec with
  | None => None
  | Some c0 =>
    let c := iter (Z.to_nat (2 ^ cost)) (fun c => bf_expand dec (bf_expand key c)) c0 in
    Some (firstn 23 (concat (iter 64 (ecb c) [firstn 8 magic; firstn 8 (skipn 8 magic); skipn 16 magic])))
  end.
End B.
