(* A bit-level SPECIFICATION of the crypt(3) DES variant, written from FIPS PUB 46-3 (DES) and the traditional
   crypt(3) / BSDi extended-DES construction.  Nothing here mentions the table-driven implementation
   (Kdf/DesCrypt.v) or its combined tables (Kdf/DesTables.v); Kdf/DesEquiv*.v prove that the table-driven
   model computes exactly this function.

   Conventions.  A w-bit block is a Z in [0, 2^w).  FIPS 46-3 numbers the bits of a block 1..w from the LEFT
   (bit 1 is the most significant), so   FIPS bit j of a w-bit block x  =  Z.testbit x (w - j).
   Every FIPS permutation / selection table is a list of 1-based source positions, read left to right exactly
   as printed in the standard:  output bit j = input bit tbl[j].                                           *)
Require Import GC.Base.Bytes.

(* ---------------------------------------------------------------------------------------------------- *)
(* Bit selections: [zsel l x] is the number whose bit k (k = 0 is the least significant) is bit [nth k l] of x;
   a negative entry selects the constant 0.                                                                *)
Fixpoint zsel (l : list Z) (x : Z) : Z :=
  match l with
  | [] => 0
  | i :: r => 2 * zsel r x + Z.b2z (Z.testbit x i)
  end.

Definition zseq (n : nat) : list Z := map Z.of_nat (seq 0 n).

(* A FIPS table [tbl] applied to an m-bit block: output bit j (1 = leftmost of [length tbl]) = input bit tbl[j]
   (1 = leftmost of m).  In Z indices: output bit (n - j) = input bit (m - tbl[j]).                           *)
Definition fsel (m : Z) (tbl : list Z) : list Z := map (fun t => m - t) (rev tbl).
Definition fperm (m : Z) (tbl : list Z) (x : Z) : Z := zsel (fsel m tbl) x.

(* ---------------------------------------------------------------------------------------------------- *)
(* FIPS 46-3 tables *)
Definition IP : list Z :=
  [58;50;42;34;26;18;10;2; 60;52;44;36;28;20;12;4; 62;54;46;38;30;22;14;6; 64;56;48;40;32;24;16;8;
   57;49;41;33;25;17;9;1;  59;51;43;35;27;19;11;3; 61;53;45;37;29;21;13;5; 63;55;47;39;31;23;15;7].
Definition FP : list Z :=                                                   (* IP^-1 *)
  [40;8;48;16;56;24;64;32; 39;7;47;15;55;23;63;31; 38;6;46;14;54;22;62;30; 37;5;45;13;53;21;61;29;
   36;4;44;12;52;20;60;28; 35;3;43;11;51;19;59;27; 34;2;42;10;50;18;58;26; 33;1;41;9;49;17;57;25].
Definition E : list Z :=
  [32;1;2;3;4;5; 4;5;6;7;8;9; 8;9;10;11;12;13; 12;13;14;15;16;17;
   16;17;18;19;20;21; 20;21;22;23;24;25; 24;25;26;27;28;29; 28;29;30;31;32;1].
Definition P : list Z :=
  [16;7;20;21; 29;12;28;17; 1;15;23;26; 5;18;31;10; 2;8;24;14; 32;27;3;9; 19;13;30;6; 22;11;4;25].
Definition PC1 : list Z :=
  [57;49;41;33;25;17;9; 1;58;50;42;34;26;18; 10;2;59;51;43;35;27; 19;11;3;60;52;44;36;
   63;55;47;39;31;23;15; 7;62;54;46;38;30;22; 14;6;61;53;45;37;29; 21;13;5;28;20;12;4].
Definition PC2 : list Z :=
  [14;17;11;24;1;5; 3;28;15;6;21;10; 23;19;12;4;26;8; 16;7;27;20;13;2;
   41;52;31;37;47;55; 30;40;51;45;33;48; 44;49;39;56;34;53; 46;42;50;36;29;32].
Definition shifts : list Z := [1;1;2;2;2;2;2;2;1;2;2;2;2;2;2;1].
Definition SBOX : list (list Z) := [
  [14;4;13;1;2;15;11;8;3;10;6;12;5;9;0;7;  0;15;7;4;14;2;13;1;10;6;12;11;9;5;3;8;
   4;1;14;8;13;6;2;11;15;12;9;7;3;10;5;0;  15;12;8;2;4;9;1;7;5;11;3;14;10;0;6;13];
  [15;1;8;14;6;11;3;4;9;7;2;13;12;0;5;10;  3;13;4;7;15;2;8;14;12;0;1;10;6;9;11;5;
   0;14;7;11;10;4;13;1;5;8;12;6;9;3;2;15;  13;8;10;1;3;15;4;2;11;6;7;12;0;5;14;9];
  [10;0;9;14;6;3;15;5;1;13;12;7;11;4;2;8;  13;7;0;9;3;4;6;10;2;8;5;14;12;11;15;1;
   13;6;4;9;8;15;3;0;11;1;2;12;5;10;14;7;  1;10;13;0;6;9;8;7;4;15;14;3;11;5;2;12];
  [7;13;14;3;0;6;9;10;1;2;8;5;11;12;4;15;  13;8;11;5;6;15;0;3;4;7;2;12;1;10;14;9;
   10;6;9;0;12;11;7;13;15;1;3;14;5;2;8;4;  3;15;0;6;10;1;13;8;9;4;5;11;12;7;2;14];
  [2;12;4;1;7;10;11;6;8;5;3;15;13;0;14;9;  14;11;2;12;4;7;13;1;5;0;15;10;3;9;8;6;
   4;2;1;11;10;13;7;8;15;9;12;5;6;3;0;14;  11;8;12;7;1;14;2;13;6;15;0;9;10;4;5;3];
  [12;1;10;15;9;2;6;8;0;13;3;4;14;7;5;11;  10;15;4;2;7;12;9;5;6;1;13;14;0;11;3;8;
   9;14;15;5;2;8;12;3;7;0;4;10;1;13;11;6;  4;3;2;12;9;5;15;10;11;14;1;7;6;0;8;13];
  [4;11;2;14;15;0;8;13;3;12;9;7;5;10;6;1;  13;0;11;7;4;9;1;10;14;3;5;12;2;15;8;6;
   1;4;11;13;12;3;7;14;10;15;6;8;0;5;9;2;  6;11;13;8;1;4;10;7;9;5;0;15;14;2;3;12];
  [13;2;8;4;6;15;11;1;10;9;3;14;5;0;12;7;  1;15;13;8;10;3;7;4;12;5;6;11;0;14;9;2;
   7;11;4;1;9;12;14;2;0;6;10;13;15;3;5;8;  2;1;14;7;4;10;8;13;15;12;9;0;3;5;6;11]].

(* ---------------------------------------------------------------------------------------------------- *)
(* The cipher function f *)

(* S-box g (0 = S1) on a 6-bit input u = b1 b2 b3 b4 b5 b6 (b1 most significant): row b1 b6, column b2 b3 b4 b5 *)
Definition sbox (g : Z) (u : Z) : Z :=
  let row := 2 * (u / 32) + u mod 2 in
  let col := (u / 2) mod 16 in
  nth (Z.to_nat (16 * row + col)) (nth (Z.to_nat g) SBOX []) 0.

(* the g-th 6-bit group (g = 0 is the leftmost, FIPS bits 1..6) of a 48-bit block: (x / 2^(6(7-g))) mod 64 *)
Definition grp6 (g : Z) (x : Z) : Z := Z.land (Z.shiftr x (42 - 6 * g)) 63.

(* S(x) = S1(B1) S2(B2) ... S8(B8), the concatenation of eight 4-bit outputs (S1 leftmost) *)
Definition sboxes (x : Z) : Z := fold_left (fun acc g => acc * 16 + sbox g (grp6 g x)) (zseq 8) 0.

(* crypt(3) salt: bit i (i = 0 the least significant, 0 <= i < 24) of [salt] set  <=>  bits i+1 and i+25 (FIPS
   numbering) of the 48-bit E output are exchanged.  FIPS bit e is Z bit q = 48 - e, so Z bit q is governed by
   salt bit (47 - q) mod 24 and its partner is Z bit (q + 24) mod 48.                                          *)
Definition salt_sel (salt : Z) : list Z :=
  map (fun q => if Z.testbit salt ((47 - q) mod 24) then (q + 24) mod 48 else q) (zseq 48).
Definition salt_swap (salt x : Z) : Z := zsel (salt_sel salt) x.

Definition f (salt K R : Z) : Z := fperm 32 P (sboxes (Z.lxor (salt_swap salt (fperm 32 E R)) K)).

(* ---------------------------------------------------------------------------------------------------- *)
(* Key schedule: C0 D0 = PC-1(key); Ci Di = left rotations of C(i-1) D(i-1) by shifts[i]; Ki = PC-2(Ci Di) *)
Definition rotl28 (s c : Z) : Z := Z.lor (Z.shiftl c s mod 2 ^ 28) (Z.shiftr c (28 - s)).
Definition rotCD (s cd : Z) : Z :=
  Z.lor (Z.shiftl (rotl28 s (Z.shiftr cd 28)) 28) (rotl28 s (cd mod 2 ^ 28)).

Fixpoint subkeys_from (cd : Z) (sh : list Z) : list Z :=
  match sh with
  | [] => []
  | s :: r => let cd' := rotCD s cd in fperm 56 PC2 cd' :: subkeys_from cd' r
  end.
Definition subkeys (key : Z) : list Z := subkeys_from (fperm 64 PC1 key) shifts.

(* ---------------------------------------------------------------------------------------------------- *)
(* Sixteen rounds, the block cipher, and its iteration *)
Definition round (salt : Z) (LR : Z * Z) (K : Z) : Z * Z :=
  let '(L, R) := LR in (R, Z.lxor L (f salt K R)).

Definition des_block (salt key x : Z) : Z :=
  let ipx := fperm 64 IP x in
  let '(L16, R16) := fold_left (round salt) (subkeys key) (Z.shiftr ipx 32, ipx mod 2 ^ 32) in
  fperm 64 FP (Z.lor (Z.shiftl R16 32) L16).                        (* pre-output block R16 L16 *)

(* [rounds] applications of the whole salted cipher to the running block (25 for traditional crypt, the
   count field for extended DES) *)
Definition spec_encrypt (key input salt rounds : Z) : Z :=
  Nat.iter (Z.to_nat rounds) (des_block salt key) input.

(* ---------------------------------------------------------------------------------------------------- *)
(* crypt(3) wrappers: key from the password, salt / count decoding, big-endian output *)

(* the 64-bit key: byte i (i < 8, zero padded) is the low seven bits of password byte i shifted left by one *)
Fixpoint spec_key_from (pw : bytes) (n : nat) : Z :=
  match n with
  | O => 0
  | S n' => match pw with
            | [] => 0
            | c :: r => 2 * (c mod 128) * 256 ^ Z.of_nat n' + spec_key_from r n'
            end
  end.
Definition spec_key (pw : bytes) : Z := spec_key_from pw 8.

(* extended DES: the key is folded over 8-byte blocks: key := DES_key(key) xor next block *)
Fixpoint spec_ext_fold (fuel : nat) (pw : bytes) (kv : Z) : Z :=
  match fuel with
  | O => kv
  | S fuel' => match pw with
               | [] => kv
               | _ => spec_ext_fold fuel' (skipn 8 pw) (Z.lxor (spec_encrypt kv kv 0 1) (spec_key (firstn 8 pw)))
               end
  end.
Definition spec_ext_key (pw : bytes) : Z := spec_ext_fold (length pw) (skipn 8 pw) (spec_key (firstn 8 pw)).

(* the crypt alphabet "./0-9A-Za-z" -> 0..63 (255 for any other byte, as hashutil's decode map does) *)
Definition a64 (c : Z) : Z :=
  if (46 <=? c) && (c <=? 57) then c - 46            (* . / 0-9 *)
  else if (65 <=? c) && (c <=? 90) then c - 53       (* A-Z *)
  else if (97 <=? c) && (c <=? 122) then c - 59      (* a-z *)
  else 255.
(* little-endian base-64 number of at most four characters, as a uint32 *)
Fixpoint spec_decode_from (b : bytes) (i : Z) (n : nat) : Z :=
  match n, b with
  | S n', c :: r => (a64 c * 2 ^ (6 * i) + spec_decode_from r (i + 1) n') mod 2 ^ 32
  | _, _ => 0
  end.
Definition spec_decode_int (b : bytes) : Z := spec_decode_from b 0 4.

Definition be64 (v : Z) : bytes := map (fun k => (v / 2 ^ (8 * (7 - k))) mod 256) (zseq 8).

Definition spec_des_crypt (pw salt2 : bytes) : bytes :=
  be64 (spec_encrypt (spec_key pw) 0 (spec_decode_int salt2) 25).
Definition spec_desext_crypt (pw salt4 : bytes) (rounds : Z) : bytes :=
  be64 (spec_encrypt (spec_ext_key pw) 0 (spec_decode_int salt4) rounds).

(* ---------------------------------------------------------------------------------------------------- *)
(* Known-answer tests of the specification (salt 0, one application = plain DES) *)

(* the worked example found in every DES tutorial (Grabbe) *)
Example kat_grabbe : des_block 0 0x133457799BBCDFF1 0x0123456789ABCDEF = 0x85E813540F0AB405.
Proof. vm_compute. reflexivity. Qed.
(* Rivest's DES validation: X0 = 9474B8E8C73BCA7D, X(i+1) = E(X(i), X(i)) for even i; first step *)
Example kat_rivest_1 : des_block 0 0x9474B8E8C73BCA7D 0x9474B8E8C73BCA7D = 0x8DA744E0C94E5E17.
Proof. vm_compute. reflexivity. Qed.
(* NBS SP 500-20 style vectors: weak key 0101..01, variable plaintext 80..00; all-zero/all-one; and a classic *)
Example kat_nbs_ip : des_block 0 0x0101010101010101 0x8000000000000000 = 0x95F8A5E5DD31D900.
Proof. vm_compute. reflexivity. Qed.
Example kat_nbs_key : des_block 0 0x8001010101010101 0 = 0x95A8D72813DAA94D.
Proof. vm_compute. reflexivity. Qed.
Example kat_zero : des_block 0 0 0 = 0x8CA64DE9C1B123A7.
Proof. vm_compute. reflexivity. Qed.
Example kat_ones : des_block 0 0xFFFFFFFFFFFFFFFF 0xFFFFFFFFFFFFFFFF = 0x7359B2163E4EDC58.
Proof. vm_compute. reflexivity. Qed.
Example kat_nowisthe : des_block 0 0x0123456789ABCDEF 0x4E6F772069732074 = 0x3FA40E8A984D4815.
Proof. vm_compute. reflexivity. Qed.
(* the sixteen subkeys of the tutorial key: K1 and K16 *)
Example kat_subkeys :
  nth 0 (subkeys 0x133457799BBCDFF1) 0 = 0x1B02EFFC7072 /\ nth 15 (subkeys 0x133457799BBCDFF1) 0 = 0xCB3D8B0E17F5.
Proof. vm_compute. split; reflexivity. Qed.
(* crypt("password", "ab") = "abJnggxhB/yWI": the 64-bit result whose crypt-base64 rendering is "JnggxhB/yWI" *)
Example kat_crypt_password_ab :
  spec_des_crypt [112;97;115;115;119;111;114;100] [97;98] = [87;59;44;246;211;65;250;37].
Proof. vm_compute. reflexivity. Qed.
(* BSDi extended DES, agreeing with libxcrypt 4.4.33:
   crypt("password", "_/...abcd") = "_/...abcdJZJP1o1hSpg" (count 1), crypt("password", "_J9..abcd") = "_J9..abcdIPPmXD22F8s"
   (count 725), crypt("a seventeen bytes", "_J9..zz..") = "_J9..zz...OchdTLtseQ" (17-byte password: three key blocks) *)
Example kat_desext_1 :
  spec_desext_crypt [112;97;115;115;119;111;114;100] [97;98;99;100] 1 = [86;85;91;15;64;237;123;91].
Proof. vm_compute. reflexivity. Qed.
Example kat_desext_725 :
  spec_desext_crypt [112;97;115;115;119;111;114;100] [97;98;99;100] 725 = [81;182;242;140;241;4;68;174].
Proof. vm_compute. reflexivity. Qed.
Example kat_desext_17 :
  spec_desext_crypt [97;32;115;101;118;101;110;116;101;101;110;32;98;121;116;101;115] [122;122;46;46] 725
  = [1;170;45;165;245;249;226;167].
Proof. vm_compute. reflexivity. Qed.
