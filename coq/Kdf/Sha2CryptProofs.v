(* sha2crypt.Encrypt / duplicate (literal model with checked slices and fuelled loops) = Drepper's SHA-crypt
   specification, for every password and salt; no panic, termination within the fuel. *)
Require Import GC.Base.Bytes GC.Kdf.KdfBase GC.Kdf.KdfBaseProofs GC.Kdf.Sha2Crypt.

Arguments Z.add : simpl never.
Arguments Z.sub : simpl never.
Arguments Z.of_nat : simpl never.
Arguments Z.shiftr : simpl never.
Arguments Z.land : simpl never.

(* for i = len(password); i > h.Size(); i -= h.Size() { ha.Write(db) }; ha.Write(db[:i]) *)
Lemma loopA_spec : forall hs fuel db i acc, 0 < hs -> Z.of_nat (length db) = hs ->
  0 <= i < Z.of_nat fuel ->
  loopA hs fuel db i acc = Some (acc ++ take_cyclic db (Z.to_nat i)).
Proof.
  intros hs; induction fuel as [|f IH]; intros db i acc Hhs Hdb Hi; [lia|]. cbn [loopA].
  destruct (Z.ltb_spec hs i).
  - rewrite IH by lia. rewrite (take_cyclic_step db hs i) by lia. now rewrite app_assoc.
  - rewrite (take_cyclic_last db hs i) by lia. reflexivity.
Qed.

(* for i := len(password); i > 0; i >>= 1 *)
Lemma loopB_spec : forall fuel db pw i acc, i <= Z.of_nat fuel ->
  loopB fuel db pw i acc
  = Some (acc ++ flat_map (fun b : bool => if b then db else pw) (bits_lsb fuel i)).
Proof.
  induction fuel as [|f IH]; intros db pw i acc Hi; cbn [loopB bits_lsb].
  - destruct (Z.leb_spec i 0); [|lia]. cbn [flat_map]. now rewrite app_nil_r.
  - destruct (Z.leb_spec i 0).
    + cbn [flat_map]. now rewrite app_nil_r.
    + pose proof (shiftr1_lt i ltac:(lia)) as Hs.
      rewrite IH by lia. cbn [flat_map]. now rewrite <- app_assoc.
Qed.

(* duplicate's loop, for EVERY i >= 0 -- in particular for i >= hs, where the loop body runs at least once and the
   decrement i -= h.Size() is what brings i below hs (the historical "i = -h.Size()" made b[:i] panic there) *)
Lemma dup_loop_spec : forall hs fuel b i acc, 0 < hs -> Z.of_nat (length b) = hs ->
  0 <= i < Z.of_nat fuel ->
  dup_loop hs fuel b i acc = Some (acc ++ take_cyclic b (Z.to_nat i)).
Proof.
  intros hs; induction fuel as [|f IH]; intros b i acc Hhs Hb Hi; [lia|]. cbn [dup_loop].
  destruct (Z.leb_spec hs i).
  - rewrite (sl_full b hs) by (unfold lenZ; lia). cbn [obind].
    rewrite IH by lia. rewrite (take_cyclic_step b hs i) by lia. now rewrite app_assoc.
  - rewrite (take_cyclic_last b hs i) by lia. reflexivity.
Qed.

Theorem duplicate_spec : forall hs b n, 0 < hs -> Z.of_nat (length b) = hs -> 0 <= n ->
  Sha2Crypt.duplicate hs b n = Some (take_cyclic b (Z.to_nat n)).
Proof.
  intros hs b n Hhs Hb Hn. unfold duplicate.
  rewrite dup_loop_spec by (try assumption; lia). reflexivity.
Qed.

(* the case the typo broke, stated separately so that it is visibly covered: n >= hs gives at least one full copy *)
Corollary duplicate_spec_ge : forall hs b n, 0 < hs -> Z.of_nat (length b) = hs -> hs <= n ->
  Sha2Crypt.duplicate hs b n = Some (b ++ take_cyclic b (Z.to_nat (n - hs))).
Proof.
  intros hs b n Hhs Hb Hn. rewrite duplicate_spec by (try assumption; lia).
  now rewrite (take_cyclic_step b hs n) by lia.
Qed.

(* one round, for i > 0 (cur = dp) and for i = 0 (cur = da) *)
Lemma round_pos : forall H p s first dp i, 0 < i ->
  round H (lenZ p) p s first dp i = Some (spec_round H p s dp i).
Proof.
  intros H p s first dp i Hi. unfold round, spec_round.
  destruct (Z.eqb_spec i 0); [lia|].
  rewrite (sl_full p (lenZ p)) by reflexivity. cbn [obind].
  destruct (negb (Z.land i 1 =? 0)); reflexivity.
Qed.

Lemma round_zero : forall H p s first dp,
  round H (lenZ p) p s first dp 0 = Some (spec_round H p s first 0).
Proof. intros. reflexivity. Qed.

Lemma rounds_pos : forall H n p s first dp i, 0 < i ->
  rounds H n (lenZ p) p s first dp i = Some (spec_rounds H n p s dp i).
Proof.
  intros H n; induction n as [|n IH]; intros p s first dp i Hi; cbn [rounds spec_rounds]; [reflexivity|].
  rewrite round_pos by assumption. cbn [obind]. apply IH. lia.
Qed.

Lemma rounds_zero : forall H n p s first dp,
  rounds H (S n) (lenZ p) p s first dp 0 = Some (spec_rounds H (S n) p s first 0).
Proof.
  intros. cbn [rounds spec_rounds]. rewrite round_zero. cbn [obind].
  apply rounds_pos. reflexivity.
Qed.

(* the prefix of Encrypt up to the main loop, rewritten to the specification's A, P, S *)
Lemma Encrypt_unfold : forall H hs pw salt nrounds perm, 0 < hs -> (forall x, Z.of_nat (length (H x)) = hs) ->
  Sha2Crypt.Encrypt H hs pw salt nrounds perm =
  let B := H (pw ++ salt ++ pw) in
  let A := H (pw ++ salt ++ take_cyclic B (length pw)
              ++ flat_map (fun b : bool => if b then B else pw) (bits_lsb (S (length pw)) (lenZ pw))) in
  let DP := H (repeat_bytes (length pw) pw) in
  let P := take_cyclic DP (length pw) in
  let DS := H (repeat_bytes (Z.to_nat (16 + nth 0 A 0)) salt) in
  let S := take_cyclic DS (length salt) in
  do out <- rounds H (Z.to_nat nrounds) (lenZ P) P S A DP 0; permute out perm.
Proof.
  intros H hs pw salt nrounds perm Hhs HH. unfold Encrypt.
  rewrite (loopA_spec hs) by (try apply HH; unfold lenZ; lia). cbn [obind].
  rewrite loopB_spec by (unfold lenZ; lia). cbn [obind].
  rewrite !(duplicate_spec hs) by (try apply HH; unfold lenZ; lia). cbn [obind].
  assert (L : forall x : bytes, Z.to_nat (lenZ x) = length x) by (intros; unfold lenZ; apply Nat2Z.id).
  rewrite !L. cbv zeta. repeat rewrite <- app_assoc.
  assert (HP : lenZ (take_cyclic (H (repeat_bytes (length pw) pw)) (length pw)) = lenZ pw).
  { unfold lenZ. rewrite take_cyclic_length; [reflexivity|].
    intros E. specialize (HH (repeat_bytes (length pw) pw)). rewrite E in HH. cbn [length] in HH. lia. }
  rewrite HP. reflexivity.
Qed.

(* The statement with 0 <= nrounds is FALSE at nrounds = 0: the Go code (and the model) then returns
   Permute(dp) with dp = DP, the digest of the repeated password (step 15), whereas the specification's
   "A after zero rounds" is A.  E.g. H x := first 4 bytes of (map (fun z => (7z + len x) mod 256) (rev x) ++ [7;7;7;7]),
   hs = 4, pw = [1], salt = [2], perm = [0;1;2;3]: impl Some [8;7;7;7], spec Some [56;77;126;77].
   (Every caller enforces rounds >= 1000.)  Corrected hypothesis: 0 < nrounds. *)
Theorem sha2crypt_impl_spec : forall H hs pw salt nrounds perm, 0 < hs ->
  (forall x, Z.of_nat (length (H x)) = hs) -> 0 < nrounds ->
  Sha2Crypt.Encrypt H hs pw salt nrounds perm = Sha2Crypt.spec_Encrypt H pw salt nrounds perm.
Proof.
  intros H hs pw salt nrounds perm Hhs HH Hn.
  rewrite (Encrypt_unfold H hs) by assumption. unfold spec_Encrypt. cbv zeta.
  destruct (Z.to_nat nrounds) as [|n] eqn:En; [lia|].
  rewrite rounds_zero. reflexivity.
Qed.

(* what happens at nrounds <= 0, for completeness *)
Theorem sha2crypt_zero_rounds : forall H hs pw salt nrounds perm, 0 < hs ->
  (forall x, Z.of_nat (length (H x)) = hs) -> nrounds <= 0 ->
  Sha2Crypt.Encrypt H hs pw salt nrounds perm = permute (H (repeat_bytes (length pw) pw)) perm.
Proof.
  intros H hs pw salt nrounds perm Hhs HH Hn.
  rewrite (Encrypt_unfold H hs) by assumption. cbv zeta.
  replace (Z.to_nat nrounds) with 0%nat by lia. reflexivity.
Qed.

Lemma spec_rounds_length : forall H hs n p s prev i, (forall x, Z.of_nat (length (H x)) = hs) ->
  Z.of_nat (length prev) = hs -> Z.of_nat (length (spec_rounds H n p s prev i)) = hs.
Proof.
  intros H hs n; induction n as [|n IH]; intros p s prev i HH Hp; cbn [spec_rounds]; [assumption|].
  apply IH; [assumption|]. unfold spec_round. apply HH.
Qed.

Theorem sha2crypt_total : forall H hs pw salt nrounds perm, 0 < hs ->
  (forall x, Z.of_nat (length (H x)) = hs) -> 0 <= nrounds ->
  Forall (fun j => 0 <= j < hs) perm ->
  exists k, Sha2Crypt.Encrypt H hs pw salt nrounds perm = Some k /\ length k = length perm.
Proof.
  intros H hs pw salt nrounds perm Hhs HH Hn Hperm.
  destruct (Z.eq_dec nrounds 0) as [E|E].
  - rewrite (sha2crypt_zero_rounds H hs) by (try assumption; lia).
    apply permute_some. rewrite HH. exact Hperm.
  - rewrite (sha2crypt_impl_spec H hs) by (try assumption; lia). unfold spec_Encrypt.
    apply permute_some. rewrite (spec_rounds_length H hs) by (try assumption; apply HH). exact Hperm.
Qed.

Print Assumptions duplicate_spec.
Print Assumptions sha2crypt_impl_spec.
Print Assumptions sha2crypt_total.
