(* Generic facts about bit selections (zsel), OR-linear functions on Z and the basis principle:
   two OR-linear functions that agree on 2^0 .. 2^(n-1) agree on every n-bit number.  No DES content. *)
Require Import GC.Base.Bytes GC.Kdf.DesSpec.

(* ---------------------------------------------------------------------------------------------------- *)
(* zsel *)
Lemma zsel_range : forall l x, 0 <= zsel l x < 2 ^ Z.of_nat (length l).
Proof.
  induction l as [|i l IH]; intros x.
  - simpl. lia.
  - change (zsel (i :: l) x) with (2 * zsel l x + Z.b2z (Z.testbit x i)).
    change (length (i :: l)) with (S (length l)).
    rewrite Nat2Z.inj_succ, Z.pow_succ_r by lia.
    specialize (IH x). destruct (Z.testbit x i); simpl Z.b2z; lia.
Qed.

Lemma zsel_nonneg : forall l x, 0 <= zsel l x.
Proof. intros. apply zsel_range. Qed.

Lemma zsel_testbit : forall l x k, 0 <= k -> Z.testbit (zsel l x) k = Z.testbit x (nth (Z.to_nat k) l (-1)).
Proof.
  induction l as [|i l IH]; intros x k Hk.
  - simpl zsel. rewrite Z.testbit_0_l. destruct (Z.to_nat k); reflexivity.
  - change (zsel (i :: l) x) with (2 * zsel l x + Z.b2z (Z.testbit x i)).
    destruct (Z.eq_dec k 0) as [->|Hne].
    + simpl nth. apply Z.testbit_0_r.
    + replace k with (Z.succ (k - 1)) at 1 by lia.
      rewrite Z.testbit_succ_r by lia. rewrite IH by lia.
      replace (Z.to_nat k) with (S (Z.to_nat (k - 1))) by lia. reflexivity.
Qed.

Definition selnth (l : list Z) (i : Z) : Z := if i <? 0 then -1 else nth (Z.to_nat i) l (-1).
Definition comp (l1 l2 : list Z) : list Z := map (selnth l2) l1.

Lemma zsel_testbit' : forall l x i, Z.testbit (zsel l x) i = Z.testbit x (selnth l i).
Proof.
  intros. unfold selnth. destruct (i <? 0) eqn:E.
  - apply Z.ltb_lt in E. rewrite Z.testbit_neg_r by lia. reflexivity.
  - apply Z.ltb_ge in E. apply zsel_testbit; lia.
Qed.

Lemma zsel_comp : forall l1 l2 x, zsel l1 (zsel l2 x) = zsel (comp l1 l2) x.
Proof.
  induction l1 as [|i l1 IH]; intros; simpl; [reflexivity|].
  rewrite IH, zsel_testbit'. reflexivity.
Qed.

Lemma zsel_0 : forall l, zsel l 0 = 0.
Proof. induction l; simpl; [reflexivity|]. rewrite IHl, Z.testbit_0_l. reflexivity. Qed.

Lemma zsel_lor : forall l a b, zsel l (Z.lor a b) = Z.lor (zsel l a) (zsel l b).
Proof.
  intros. apply Z.bits_inj'. intros k Hk.
  rewrite Z.lor_spec, !zsel_testbit, Z.lor_spec by lia. reflexivity.
Qed.

Lemma zsel_lxor : forall l a b, zsel l (Z.lxor a b) = Z.lxor (zsel l a) (zsel l b).
Proof.
  intros. apply Z.bits_inj'. intros k Hk.
  rewrite Z.lxor_spec, !zsel_testbit, Z.lxor_spec by lia. reflexivity.
Qed.

Lemma nth_zseq : forall n k d, (k < n)%nat -> nth k (zseq n) d = Z.of_nat k.
Proof.
  intros. unfold zseq. rewrite nth_indep with (d' := Z.of_nat 0) by (rewrite map_length, seq_length; lia).
  rewrite map_nth, seq_nth by lia. reflexivity.
Qed.

Lemma zseq_length : forall n, length (zseq n) = n.
Proof. intros. unfold zseq. rewrite map_length, seq_length. reflexivity. Qed.

Lemma In_zseq : forall n i, 0 <= i < Z.of_nat n -> In i (zseq n).
Proof.
  intros. unfold zseq. apply in_map_iff. exists (Z.to_nat i). split; [lia|]. apply in_seq. lia.
Qed.

Lemma testbit_small : forall n x k, 0 <= x < 2 ^ n -> n <= k -> Z.testbit x k = false.
Proof.
  intros n x k Hx Hk. destruct (Z.eq_dec x 0) as [->|Hne]; [apply Z.testbit_0_l|].
  apply Z.bits_above_log2; [lia|]. apply Z.lt_le_trans with n; [|lia].
  apply Z.log2_lt_pow2; lia.
Qed.

Lemma zsel_id : forall n x, 0 <= x < 2 ^ Z.of_nat n -> zsel (zseq n) x = x.
Proof.
  intros n x Hx. apply Z.bits_inj'. intros k Hk. rewrite zsel_testbit by lia.
  destruct (Z_lt_dec k (Z.of_nat n)).
  - rewrite nth_zseq by lia. f_equal. lia.
  - rewrite nth_overflow by (rewrite zseq_length; lia).
    rewrite (testbit_small (Z.of_nat n) x k) by lia. reflexivity.
Qed.

(* x land m as a selection *)
Fixpoint masksel (m k : Z) (l : list Z) : list Z :=
  match l with
  | [] => []
  | i :: r => (if Z.testbit m k then i else -1) :: masksel m (k + 1) r
  end.

Lemma nth_masksel : forall l m k j,
  nth j (masksel m k l) (-1) = if Z.testbit m (k + Z.of_nat j) then nth j l (-1) else -1.
Proof.
  induction l as [|i l IH]; intros m k j.
  - simpl. destruct j; destruct (Z.testbit m _); reflexivity.
  - destruct j as [|j].
    + simpl. rewrite Z.add_0_r. reflexivity.
    + simpl masksel. simpl nth. rewrite IH. replace (k + 1 + Z.of_nat j) with (k + Z.of_nat (S j)) by lia. reflexivity.
Qed.

Lemma land_zsel : forall l m x, Z.land (zsel l x) m = zsel (masksel m 0 l) x.
Proof.
  intros. apply Z.bits_inj'. intros k Hk.
  rewrite Z.land_spec, !zsel_testbit by lia. rewrite nth_masksel.
  replace (0 + Z.of_nat (Z.to_nat k)) with k by lia.
  destruct (Z.testbit m k).
  - apply andb_true_r.
  - rewrite andb_false_r. reflexivity.
Qed.

(* a bit field as a selection *)
Lemma field_zsel : forall n s x, 0 <= s ->
  Z.land (Z.shiftr x s) (Z.ones (Z.of_nat n)) = zsel (map (fun j => s + j) (zseq n)) x.
Proof.
  intros n s x Hs. apply Z.bits_inj'. intros k Hk.
  rewrite Z.land_spec, Z.shiftr_spec, zsel_testbit by lia.
  destruct (Z_lt_dec k (Z.of_nat n)).
  - rewrite Z.ones_spec_low by lia. rewrite andb_true_r.
    rewrite nth_indep with (d' := (fun j => s + j) 0) by (rewrite map_length, zseq_length; lia).
    rewrite map_nth, nth_zseq by lia. f_equal. lia.
  - rewrite Z.ones_spec_high by lia. rewrite andb_false_r.
    rewrite nth_overflow by (rewrite map_length, zseq_length; lia). reflexivity.
Qed.

(* ---------------------------------------------------------------------------------------------------- *)
(* OR-linear functions *)
Definition orlin (F : Z -> Z) : Prop := F 0 = 0 /\ forall a b, F (Z.lor a b) = Z.lor (F a) (F b).

Lemma orlin_id : orlin (fun x => x).
Proof. split; reflexivity. Qed.

Lemma orlin_comp : forall F G, orlin F -> orlin G -> orlin (fun x => F (G x)).
Proof.
  intros F G [F0 Fl] [G0 Gl]. split.
  - rewrite G0. exact F0.
  - intros. rewrite Gl, Fl. reflexivity.
Qed.

Lemma lor_shuffle : forall a b c d, Z.lor (Z.lor a b) (Z.lor c d) = Z.lor (Z.lor a c) (Z.lor b d).
Proof.
  intros. apply Z.bits_inj'. intros k Hk. rewrite !Z.lor_spec.
  destruct (Z.testbit a k), (Z.testbit b k), (Z.testbit c k), (Z.testbit d k); reflexivity.
Qed.

Lemma orlin_lor : forall F G, orlin F -> orlin G -> orlin (fun x => Z.lor (F x) (G x)).
Proof.
  intros F G [F0 Fl] [G0 Gl]. split.
  - rewrite F0, G0. reflexivity.
  - intros. rewrite Fl, Gl. apply lor_shuffle.
Qed.

Lemma orlin_land : forall F m, orlin F -> orlin (fun x => Z.land (F x) m).
Proof.
  intros F m [F0 Fl]. split.
  - rewrite F0. apply Z.land_0_l.
  - intros. rewrite Fl. apply Z.land_lor_distr_l.
Qed.

Lemma orlin_shiftr : forall F n, orlin F -> orlin (fun x => Z.shiftr (F x) n).
Proof.
  intros F n [F0 Fl]. split.
  - rewrite F0. apply Z.shiftr_0_l.
  - intros. rewrite Fl. apply Z.shiftr_lor.
Qed.

Lemma orlin_shiftl : forall F n, orlin F -> orlin (fun x => Z.shiftl (F x) n).
Proof.
  intros F n [F0 Fl]. split.
  - rewrite F0. apply Z.shiftl_0_l.
  - intros. rewrite Fl. apply Z.shiftl_lor.
Qed.

Lemma orlin_modpow2 : forall F n, 0 <= n -> orlin F -> orlin (fun x => F x mod 2 ^ n).
Proof.
  intros F n Hn HF.
  assert (E : forall x, F x mod 2 ^ n = Z.land (F x) (Z.ones n)) by (intros; rewrite Z.land_ones by lia; reflexivity).
  destruct (orlin_land F (Z.ones n) HF) as [H0 Hl]. split.
  - rewrite E. exact H0.
  - intros. rewrite !E. apply Hl.
Qed.

Lemma orlin_zsel : forall l F, orlin F -> orlin (fun x => zsel l (F x)).
Proof.
  intros l F [F0 Fl]. split.
  - rewrite F0. apply zsel_0.
  - intros. rewrite Fl. apply zsel_lor.
Qed.

Lemma orlin_ext : forall F G, (forall x, F x = G x) -> orlin F -> orlin G.
Proof.
  intros F G E [F0 Fl]. split.
  - rewrite <- E. exact F0.
  - intros. rewrite <- !E. apply Fl.
Qed.

(* ---------------------------------------------------------------------------------------------------- *)
(* the basis principle *)
Lemma split_top : forall n x, 0 <= n -> 0 <= x < 2 ^ (n + 1) ->
  x = Z.lor (x mod 2 ^ n) (if Z.testbit x n then 2 ^ n else 0).
Proof.
  intros n x Hn Hx. apply Z.bits_inj'. intros k Hk. rewrite Z.lor_spec.
  destruct (Z_lt_dec k n).
  - rewrite Z.mod_pow2_bits_low by lia.
    destruct (Z.testbit x n).
    + rewrite Z.pow2_bits_false by lia. rewrite orb_false_r. reflexivity.
    + rewrite Z.testbit_0_l, orb_false_r. reflexivity.
  - rewrite Z.mod_pow2_bits_high by lia. simpl orb.
    destruct (Z.eq_dec k n) as [->|Hne].
    + destruct (Z.testbit x n); [rewrite Z.pow2_bits_true by lia; reflexivity | rewrite Z.testbit_0_l; reflexivity].
    + rewrite (testbit_small (n + 1) x k) by lia.
      destruct (Z.testbit x n); [rewrite Z.pow2_bits_false by lia; reflexivity | rewrite Z.testbit_0_l; reflexivity].
Qed.

Theorem orlin_basis : forall n F G, orlin F -> orlin G ->
  (forall i, 0 <= i < Z.of_nat n -> F (2 ^ i) = G (2 ^ i)) ->
  forall x, 0 <= x < 2 ^ Z.of_nat n -> F x = G x.
Proof.
  induction n as [|n IH]; intros F G HF HG Hb x Hx.
  - simpl in Hx. assert (x = 0) by lia. subst. destruct HF as [-> _], HG as [-> _]. reflexivity.
  - rewrite Nat2Z.inj_succ in Hx. unfold Z.succ in Hx.
    rewrite (split_top (Z.of_nat n) x) by lia.
    destruct HF as [F0 Fl], HG as [G0 Gl]. rewrite Fl, Gl. f_equal.
    + apply IH; [split; assumption | split; assumption | intros; apply Hb; lia |].
      apply Z.mod_pos_bound. lia.
    + destruct (Z.testbit x (Z.of_nat n)); [apply Hb; lia | congruence].
Qed.

Definition basis_check (n : nat) (F G : Z -> Z) : bool := forallb (fun i => F (2 ^ i) =? G (2 ^ i)) (zseq n).

Lemma basis_check_ok : forall n F G, basis_check n F G = true ->
  forall i, 0 <= i < Z.of_nat n -> F (2 ^ i) = G (2 ^ i).
Proof.
  intros n F G H i Hi. unfold basis_check in H. rewrite forallb_forall in H.
  apply Z.eqb_eq. apply H. apply In_zseq. exact Hi.
Qed.

Corollary orlin_basis_check : forall n F G, orlin F -> orlin G -> basis_check n F G = true ->
  forall x, 0 <= x < 2 ^ Z.of_nat n -> F x = G x.
Proof. intros n F G HF HG H. apply orlin_basis; auto. apply basis_check_ok. exact H. Qed.

(* bounded universal statements from a boolean sweep *)
Lemma forall_zseq : forall n (p : Z -> bool), forallb p (zseq n) = true -> forall i, 0 <= i < Z.of_nat n -> p i = true.
Proof. intros n p H i Hi. rewrite forallb_forall in H. apply H. apply In_zseq. exact Hi. Qed.

(* disjoint OR is XOR *)
Lemma lor_lxor_disjoint : forall a b, Z.land a b = 0 -> Z.lor a b = Z.lxor a b.
Proof.
  intros a b H. apply Z.bits_inj'. intros k Hk. rewrite Z.lor_spec, Z.lxor_spec.
  assert (E : Z.testbit (Z.land a b) k = false) by (rewrite H; apply Z.testbit_0_l).
  rewrite Z.land_spec in E. destruct (Z.testbit a k), (Z.testbit b k); try reflexivity; discriminate.
Qed.

Print Assumptions orlin_basis.
Print Assumptions zsel_comp.
