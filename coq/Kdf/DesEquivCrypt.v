(* The crypt(3) wrappers of des/descrypt (Key, DecodeInt, desext.key, the derive functions of the model) against
   their specifications in Kdf/DesSpec.v, on top of des_Encrypt_correct; and executable cross-checks. *)
Require Import GC.Base.Bytes GC.Kdf.DesSpec GC.Kdf.DesSpecLemmas GC.Kdf.DesCrypt GC.Kdf.DesTables
               GC.Kdf.DesEquivTables GC.Kdf.DesEquivRound GC.Kdf.DesEquiv GC.Schemes.Consts.

Notation mEncrypt := (Encrypt m_des_ie3264 m_des_cf6464 m_des_spe m_des_pcxRot m_des_ksMask).
Notation m_ext_key := (ext_key m_des_ie3264 m_des_cf6464 m_des_spe m_des_pcxRot m_des_ksMask).
Notation m_des_derive := (des_derive m_des_ie3264 m_des_cf6464 m_des_spe m_des_pcxRot m_des_ksMask m_hashutil_hash_decode).
Notation m_desext_derive := (desext_derive m_des_ie3264 m_des_cf6464 m_des_spe m_des_pcxRot m_des_ksMask m_hashutil_hash_decode).

(* ---------------------------------------------------------------------------------------------------- *)
(* Key *)
Lemma spec_key_from_cons : forall n c r,
  spec_key_from (c :: r) (S n) = 2 * (c mod 128) * 256 ^ Z.of_nat n + spec_key_from r n.
Proof. reflexivity. Qed.
Lemma des_key_from_cons : forall n c r i,
  des_key_from (c :: r) i (S n) = u64 (Z.shiftl (Z.land c 127) (57 - i * 8) + des_key_from r (i + 1) n).
Proof. reflexivity. Qed.
Lemma spec_decode_from_cons : forall n c r i,
  spec_decode_from (c :: r) i (S n) = (a64 c * 2 ^ (6 * i) + spec_decode_from r (i + 1) n) mod 2 ^ 32.
Proof. reflexivity. Qed.
Lemma decode_int_from_cons : forall hd n c r i,
  decode_int_from hd (c :: r) i (S n) = u32 (Z.shiftl (nthz hd c) (6 * i) + decode_int_from hd r (i + 1) n).
Proof. reflexivity. Qed.

Lemma spec_key_from_range : forall n pw, 0 <= spec_key_from pw n < 256 ^ Z.of_nat n.
Proof.
  induction n as [|n IH]; intros pw.
  - change (256 ^ Z.of_nat 0) with 1. destruct pw; simpl; lia.
  - rewrite Nat2Z.inj_succ, Z.pow_succ_r by lia. destruct pw as [|c r]; [change (spec_key_from [] (S n)) with 0 | rewrite spec_key_from_cons].
    + assert (0 < 256 ^ Z.of_nat n) by (apply Z.pow_pos_nonneg; lia). lia.
    + specialize (IH r). assert (M : 0 <= c mod 128 < 128) by (apply Z.mod_pos_bound; lia).
      remember (c mod 128) as m. remember (256 ^ Z.of_nat n) as p.
      assert (0 <= m * p <= 127 * p) by nia. lia.
Qed.

Lemma spec_key_range : forall pw, 0 <= spec_key pw < 2 ^ 64.
Proof. intros. apply (spec_key_from_range 8 pw). Qed.

Lemma des_key_from_eq : forall fuel pw i, i = 8 - Z.of_nat fuel -> (fuel <= 8)%nat ->
  des_key_from pw i fuel = spec_key_from pw fuel.
Proof.
  induction fuel as [|fuel IH]; intros pw i Hi Hf.
  - destruct pw; reflexivity.
  - destruct pw as [|c r]; [reflexivity|].
    rewrite des_key_from_cons, spec_key_from_cons. rewrite (IH r (i + 1)) by lia.
    change 127 with (Z.ones 7). rewrite Z.land_ones by lia. rewrite Z.shiftl_mul_pow2 by lia.
    replace (57 - i * 8) with (1 + 8 * Z.of_nat fuel) by lia.
    rewrite Z.pow_add_r, Z.pow_mul_r by lia. change (2 ^ 1) with 2. change (2 ^ 8) with 256.
    change (2 ^ 7) with 128.
    pose proof (spec_key_from_range fuel r) as R.
    assert (M : 0 <= c mod 128 < 128) by (apply Z.mod_pos_bound; lia).
    assert (P : 256 ^ Z.of_nat fuel * 256 <= 2 ^ 64).
    { change (2 ^ 64) with (256 ^ 7 * 256). apply Z.mul_le_mono_nonneg_r; [lia|]. apply Z.pow_le_mono_r; lia. }
    remember (c mod 128) as m. remember (256 ^ Z.of_nat fuel) as p.
    assert (0 <= m * p <= 127 * p) by nia.
    unfold u64. rewrite Z.mod_small by lia. lia.
Qed.

Theorem Key_correct : forall pw, Key pw = spec_key pw.
Proof. intros. apply des_key_from_eq; [reflexivity | lia]. Qed.

(* ---------------------------------------------------------------------------------------------------- *)
(* DecodeInt *)
Lemma hash_decode_a64 : forall c, c < 256 -> nthz m_hashutil_hash_decode c = a64 c.
Proof.
  intros c Hc. destruct (Z_lt_dec c 0) as [Hn|Hn].
  - unfold nthz. replace (Z.to_nat c) with 0%nat by lia. unfold a64.
    replace (46 <=? c) with false by (symmetry; apply Z.leb_gt; lia).
    replace (65 <=? c) with false by (symmetry; apply Z.leb_gt; lia).
    replace (97 <=? c) with false by (symmetry; apply Z.leb_gt; lia). reflexivity.
  - assert (C : forallb (fun c => nthz m_hashutil_hash_decode c =? a64 c) (zseq 256) = true) by (vm_compute; reflexivity).
    apply Z.eqb_eq. apply (forall_zseq 256 _ C c). lia.
Qed.

Lemma decode_int_from_eq : forall fuel b i, 0 <= i -> Forall (fun c => c < 256) (firstn fuel b) ->
  decode_int_from m_hashutil_hash_decode b i fuel = spec_decode_from b i fuel.
Proof.
  induction fuel as [|fuel IH]; intros b i Hi Hb.
  - destruct b; reflexivity.
  - destruct b as [|c r]; [reflexivity|]. simpl firstn in Hb. inversion Hb as [|? ? Hc Hr]; subst.
    rewrite decode_int_from_cons, spec_decode_from_cons. rewrite (IH r (i + 1)) by (try lia; exact Hr).
    rewrite hash_decode_a64 by exact Hc. rewrite Z.shiftl_mul_pow2 by lia. reflexivity.
Qed.

Theorem DecodeInt_correct : forall b, Forall (fun c => c < 256) (firstn 4 b) ->
  DecodeInt m_hashutil_hash_decode b = spec_decode_int b.
Proof. intros. apply decode_int_from_eq; [lia | exact H]. Qed.

(* ---------------------------------------------------------------------------------------------------- *)
(* desext.key *)
Lemma spec_encrypt_range : forall key x salt rounds, 0 <= x < 2 ^ 64 -> 0 <= spec_encrypt key x salt rounds < 2 ^ 64.
Proof. intros. unfold spec_encrypt. apply iter_range. exact H. Qed.

Lemma ext_key_loop_cons : forall ie cf spe pcx mask fuel c r kv,
  ext_key_loop ie cf spe pcx mask (S fuel) (c :: r) kv =
  ext_key_loop ie cf spe pcx mask fuel (skipn 8 (c :: r)) (Z.lxor (Encrypt ie cf spe pcx mask kv kv 0 1) (Key (firstn 8 (c :: r)))).
Proof. intros. cbn [ext_key_loop]. reflexivity. Qed.
Lemma ext_key_loop_nil : forall ie cf spe pcx mask fuel kv, ext_key_loop ie cf spe pcx mask fuel [] kv = kv.
Proof. intros. destruct fuel; reflexivity. Qed.
Lemma ext_key_loop_0 : forall ie cf spe pcx mask pw kv, ext_key_loop ie cf spe pcx mask 0 pw kv = kv.
Proof. reflexivity. Qed.
(* unfolding by an equation whose right-hand side is a stuck match: the kernel never has to compare the accumulator
   with [Z.lxor (spec_encrypt ..) ..] (which would force it to evaluate sixteen symbolic rounds) *)
Lemma spec_ext_fold_S : forall fuel pw kv,
  spec_ext_fold (S fuel) pw kv =
  match pw with
  | [] => kv
  | _ => spec_ext_fold fuel (skipn 8 pw) (Z.lxor (spec_encrypt kv kv 0 1) (spec_key (firstn 8 pw)))
  end.
Proof. reflexivity. Qed.
Lemma spec_ext_fold_cons : forall fuel c r kv,
  spec_ext_fold (S fuel) (c :: r) kv =
  spec_ext_fold fuel (skipn 8 (c :: r)) (Z.lxor (spec_encrypt kv kv 0 1) (spec_key (firstn 8 (c :: r)))).
Proof. intros. rewrite spec_ext_fold_S. reflexivity. Qed.
Lemma spec_ext_fold_nil : forall fuel kv, spec_ext_fold fuel [] kv = kv.
Proof. intros. destruct fuel; reflexivity. Qed.

Lemma ext_key_loop_eq : forall fuel pw kv, 0 <= kv < 2 ^ 64 ->
  ext_key_loop m_des_ie3264 m_des_cf6464 m_des_spe m_des_pcxRot m_des_ksMask fuel pw kv = spec_ext_fold fuel pw kv /\
  0 <= spec_ext_fold fuel pw kv < 2 ^ 64.
Proof.
  induction fuel as [|fuel IH]; intros pw kv Hkv.
  - rewrite ext_key_loop_0. change (spec_ext_fold 0 pw kv) with kv. split; [reflexivity | exact Hkv].
  - destruct pw as [|c r].
    + rewrite ext_key_loop_nil, spec_ext_fold_nil. split; [reflexivity | exact Hkv].
    + rewrite ext_key_loop_cons, spec_ext_fold_cons. rewrite des_Encrypt_correct, Key_correct by exact Hkv.
      apply IH. apply lxor_range; [lia | apply spec_encrypt_range; exact Hkv | apply spec_key_range].
Qed.

Theorem ext_key_correct : forall pw, m_ext_key pw = spec_ext_key pw /\ 0 <= spec_ext_key pw < 2 ^ 64.
Proof.
  intros. unfold ext_key, spec_ext_key. rewrite Key_correct. apply ext_key_loop_eq. apply spec_key_range.
Qed.

(* ---------------------------------------------------------------------------------------------------- *)
(* the 8-byte results *)
Lemma be8_be64 : forall v, be8 v = be64 v.
Proof.
  intros. unfold be8, be64. change (zseq 8) with [0;1;2;3;4;5;6;7].
  apply map_ext_in. intros k Hk. rewrite Z.shiftr_div_pow2; [reflexivity|].
  simpl in Hk. lia.
Qed.

Theorem des_derive_correct : forall pw salt, Forall (fun c => c < 256) (firstn 4 salt) ->
  m_des_derive pw salt = spec_des_crypt pw salt.
Proof.
  intros pw salt Hs. unfold des_derive, spec_des_crypt.
  rewrite be8_be64, Key_correct, DecodeInt_correct by exact Hs.
  rewrite des_Encrypt_correct by (try apply spec_key_range; lia). reflexivity.
Qed.

Theorem desext_derive_correct : forall pw salt rounds, Forall (fun c => c < 256) (firstn 4 salt) ->
  m_desext_derive pw salt rounds = spec_desext_crypt pw salt rounds.
Proof.
  intros pw salt rounds Hs. unfold desext_derive, spec_desext_crypt.
  destruct (ext_key_correct pw) as [E R].
  rewrite be8_be64, E, DecodeInt_correct by exact Hs.
  rewrite des_Encrypt_correct by (try exact R; lia). reflexivity.
Qed.

(* ---------------------------------------------------------------------------------------------------- *)
(* executable cross-checks (both sides evaluated): "password"/"ab"; extended, counts 1 and 725, 8- and 17-byte
   passwords; a password with 8-bit bytes *)
Example xcheck_des_password_ab :
  spec_des_crypt [112;97;115;115;119;111;114;100] [97;98] = m_des_derive [112;97;115;115;119;111;114;100] [97;98].
Proof. vm_compute. reflexivity. Qed.
Example xcheck_des_8bit :
  spec_des_crypt [200;255;128;1;0;77;250] [122;46] = m_des_derive [200;255;128;1;0;77;250] [122;46].
Proof. vm_compute. reflexivity. Qed.
Example xcheck_desext_1 :
  spec_desext_crypt [112;97;115;115;119;111;114;100] [97;98;99;100] 1
  = m_desext_derive [112;97;115;115;119;111;114;100] [97;98;99;100] 1.
Proof. vm_compute. reflexivity. Qed.
Example xcheck_desext_725 :
  spec_desext_crypt [112;97;115;115;119;111;114;100] [97;98;99;100] 725
  = m_desext_derive [112;97;115;115;119;111;114;100] [97;98;99;100] 725.
Proof. vm_compute. reflexivity. Qed.
Example xcheck_desext_17_1 :
  spec_desext_crypt [97;32;115;101;118;101;110;116;101;101;110;32;98;121;116;101;115] [97;98;49;50] 1
  = m_desext_derive [97;32;115;101;118;101;110;116;101;101;110;32;98;121;116;101;115] [97;98;49;50] 1.
Proof. vm_compute. reflexivity. Qed.
Example xcheck_desext_17_725 :
  spec_desext_crypt [97;32;115;101;118;101;110;116;101;101;110;32;98;121;116;101;115] [122;122;46;46] 725
  = m_desext_derive [97;32;115;101;118;101;110;116;101;101;110;32;98;121;116;101;115] [122;122;46;46] 725.
Proof. vm_compute. reflexivity. Qed.

Check Key_correct.
Check DecodeInt_correct.
Check ext_key_correct.
Check des_derive_correct.
Check desext_derive_correct.
Print Assumptions Key_correct.
Print Assumptions DecodeInt_correct.
Print Assumptions ext_key_correct.
Print Assumptions des_derive_correct.
Print Assumptions desext_derive_correct.
Print Assumptions xcheck_desext_17_725.
