(* Checked indexing for the KDF control-code models (C05, "no exported function panics").
   The models in Kdf/DesCrypt.v, Kdf/SunMd5.v index tables and digests with TOTALISED lookups
   (nth (Z.to_nat i) l 0), which turn a Go index-out-of-range panic into a 0.  Here: the checked lookup that
   yields None exactly when Go would panic, and the generic facts the per-scheme Safe*.v files use. *)
Require Import GC.Base.Bytes GC.Kdf.KdfBase GC.Kdf.KdfBaseProofs.

Arguments Z.add : simpl never.
Arguments Z.sub : simpl never.
Arguments Z.of_nat : simpl never.

(* l[i] as Go evaluates it: panics unless 0 <= i < len(l) *)
Definition idx_chk (l : list Z) (i : Z) : option Z :=
  if (0 <=? i) && (i <? Z.of_nat (length l)) then Some (nth (Z.to_nat i) l 0) else None.

Lemma idx_chk_some : forall l i, 0 <= i < Z.of_nat (length l) -> idx_chk l i = Some (nth (Z.to_nat i) l 0).
Proof.
  intros l i Hi. unfold idx_chk.
  destruct (Z.leb_spec 0 i); try lia. destruct (Z.ltb_spec i (Z.of_nat (length l))); try lia. reflexivity.
Qed.

Lemma idx_chk_none : forall l i, ~ (0 <= i < Z.of_nat (length l)) -> idx_chk l i = None.
Proof.
  intros l i Hi. unfold idx_chk.
  destruct (Z.leb_spec 0 i); destruct (Z.ltb_spec i (Z.of_nat (length l))); try reflexivity; lia.
Qed.

(* the checked lookup is exact: it succeeds precisely on the in-range indices *)
Lemma idx_chk_iff : forall l i, (exists x, idx_chk l i = Some x) <-> 0 <= i < Z.of_nat (length l).
Proof.
  intros l i; split.
  - intros [x E]. destruct (Z.le_gt_cases 0 i); [destruct (Z.lt_ge_cases i (Z.of_nat (length l)))|];
      try lia; rewrite idx_chk_none in E by lia; discriminate.
  - intros Hi. eexists. now apply idx_chk_some.
Qed.

(* rows of a table of tables: t[k] *)
Lemma nth_error_some_nth : forall (A : Type) (t : list A) k d, (k < length t)%nat -> nth_error t k = Some (nth k t d).
Proof. intros A t k d Hk. now apply nth_error_nth'. Qed.

(* all-or-nothing evaluation of a list of checked operations *)
Fixpoint oseq {A} (l : list (option A)) : option (list A) :=
  match l with
  | [] => Some []
  | o :: r => do x <- o; do xs <- oseq r; Some (x :: xs)
  end.

Lemma oseq_map_some : forall (A B : Type) (f : A -> option B) (g : A -> B) l,
  (forall x, In x l -> f x = Some (g x)) -> oseq (map f l) = Some (map g l).
Proof.
  intros A B f g l; induction l as [|a l IH]; intros H; [reflexivity|].
  cbn [map oseq]. rewrite (H a) by now left. cbn [obind]. rewrite IH by (intros; apply H; now right). reflexivity.
Qed.

(* x & (2^n - 1) is an n-bit number whatever x is (x < 0 included) *)
Lemma land_ones_range : forall x n, 0 <= n -> 0 <= Z.land x (Z.ones n) < 2 ^ n.
Proof. intros x n Hn. rewrite Z.land_ones by assumption. apply Z.mod_pos_bound. now apply Z.pow_pos_nonneg. Qed.

Lemma land_1_range : forall x, 0 <= Z.land x 1 < 2.
Proof. intros x. exact (land_ones_range x 1 ltac:(lia)). Qed.
Lemma land_15_range : forall x, 0 <= Z.land x 15 < 16.
Proof. intros x. exact (land_ones_range x 4 ltac:(lia)). Qed.
Lemma land_63_range : forall x, 0 <= Z.land x 63 < 64.
Proof. intros x. exact (land_ones_range x 6 ltac:(lia)). Qed.
Lemma land_127_range : forall x, 0 <= Z.land x 127 < 128.
Proof. intros x. exact (land_ones_range x 7 ltac:(lia)). Qed.

(* s[i] is the head of s[i:] *)
Lemma skipn_cons_nth : forall (l : list Z) n, (n < length l)%nat -> skipn n l = nth n l 0 :: skipn (S n) l.
Proof.
  intros l; induction l as [|a l IH]; intros n Hn; [cbn [length] in Hn; lia|].
  destruct n as [|n]; [reflexivity|]. cbn [length] in Hn. cbn [skipn nth]. apply IH. lia.
Qed.

Lemma skipn_past : forall (l : list Z) n, (length l <= n)%nat -> skipn n l = [].
Proof. intros. now apply skipn_all2. Qed.

Lemma skipn_skipn : forall (A : Type) (l : list A) a b, skipn a (skipn b l) = skipn (b + a) l.
Proof.
  intros A l a b; revert l; induction b as [|b IH]; intros l; [reflexivity|].
  destruct l as [|x l]; [now rewrite !skipn_nil|]. cbn [skipn Nat.add]. apply IH.
Qed.

Print Assumptions idx_chk_iff.
Print Assumptions oseq_map_some.
Print Assumptions land_ones_range.
Print Assumptions skipn_cons_nth.
