(* sha1.Key's derivation = NetBSD crypt-sha1; permutation indices in range => no panic. *)
Require Import GC.Base.Bytes GC.Kdf.KdfBase GC.Kdf.KdfBaseProofs GC.Codec.Strconv GC.Kdf.Sha1Crypt.

Lemma spec_iter_shift : forall HM n pw b, spec_iter HM n pw (HM pw b) = HM pw (spec_iter HM n pw b).
Proof.
  intros HM n; induction n as [|n IH]; intros pw b; cbn [spec_iter]; [reflexivity|].
  now rewrite IH.
Qed.

(* the loop (left fold, digest fed back into the same buffer) = the specification's right fold *)
Lemma iterate_spec_iter : forall HM n pw b, iterate HM n pw b = spec_iter HM n pw b.
Proof.
  intros HM n; induction n as [|n IH]; intros pw b; cbn [iterate spec_iter]; [reflexivity|].
  rewrite IH. apply spec_iter_shift.
Qed.

Theorem sha1crypt_impl_spec : forall HM prefix perm pw salt rounds,
  Sha1Crypt.Key HM prefix perm pw salt rounds = Sha1Crypt.spec_Key HM prefix perm pw salt rounds.
Proof.
  intros. unfold Key, spec_Key. now rewrite iterate_spec_iter.
Qed.

Lemma spec_iter_length : forall HM n pw b, (forall k d, length (HM k d) = 20%nat) -> length b = 20%nat ->
  length (spec_iter HM n pw b) = 20%nat.
Proof.
  intros HM n pw b HH Hb. destruct n; cbn [spec_iter]; [assumption|apply HH].
Qed.

Theorem sha1crypt_total : forall HM prefix perm pw salt rounds, (forall k d, length (HM k d) = 20%nat) ->
  Forall (fun j => 0 <= j < 20) perm ->
  exists k, Sha1Crypt.Key HM prefix perm pw salt rounds = Some k /\ length k = length perm.
Proof.
  intros HM prefix perm pw salt rounds HH Hperm.
  rewrite sha1crypt_impl_spec. unfold spec_Key.
  apply permute_some. rewrite spec_iter_length by (try assumption; apply HH). exact Hperm.
Qed.

Print Assumptions sha1crypt_impl_spec.
Print Assumptions sha1crypt_total.
