(* C05 / C14 for nthash/nthash.go encodePassword (Kdf/NtHash.v): the model is list-structural (no indices), so what is
   needed is (a) the fuel of [runes] never runs out and (b) the length of the encoded password.
   No hypothesis anywhere: the statements hold for every list of integers, bytes 0..255 or not. *)
Require Import GC.Base.Bytes GC.Kdf.KdfBase GC.Kdf.NtHash.

Arguments Z.add : simpl never.
Arguments Z.sub : simpl never.
Arguments Z.mul : simpl never.
Arguments Z.of_nat : simpl never.

Ltac bools :=
  repeat match goal with
  | H : (_ && _) = true |- _ => apply andb_true_iff in H; destruct H
  | H : (_ || _) = false |- _ => apply orb_false_iff in H; destruct H
  | H : (_ <=? _) = true |- _ => apply Z.leb_le in H
  | H : (_ <? _) = true |- _ => apply Z.ltb_lt in H
  | H : (_ <? _) = false |- _ => apply Z.ltb_ge in H
  | H : (_ <=? _) = false |- _ => apply Z.leb_gt in H
  end.

Ltac fin := intros [= <- <-]; repeat split; try (cbn [length]; lia); try congruence.

(* decode_rune consumes 1..4 bytes that are really there (0 only for the empty string), and a rune outside the Basic
   Multilingual Plane comes from a full four-byte sequence *)
Lemma decode_rune_width : forall s r n, decode_rune s = (r, n) ->
  (n <= length s)%nat /\ (n <= 4)%nat /\ (s <> [] -> (1 <= n)%nat) /\ (65536 <= r -> n = 4%nat).
Proof.
  intros s r n. unfold decode_rune, RuneError.
  destruct s as [|b0 s]; [fin|].
  cbv zeta.
  destruct (Z.ltb_spec b0 128); [fin|].
  destruct ((b0 <? 194) || (244 <? b0)) eqn:E0; [fin|]. bools.
  destruct (Z.ltb_spec b0 224).
  { destruct s as [|b1 s]; [fin|].
    destruct ((128 <=? b1) && (b1 <=? 191)) eqn:E1; [|fin]. bools. fin. }
  destruct (Z.ltb_spec b0 240).
  { destruct s as [|b1 [|b2 s]]; [fin|fin|].
    match goal with |- context [if ?c then _ else _] => destruct c eqn:E1 end; [|fin]. bools.
    destruct (Z.eqb_spec b0 237); fin. }
  destruct s as [|b1 [|b2 [|b3 s]]]; [fin|fin|fin|].
  match goal with |- context [if ?c then _ else _] => destruct c eqn:E1 end; fin.
Qed.

(* ---------------------------------------------------------------- (4a) runes never exhausts its fuel *)
Lemma runes_fuel_irrelevant : forall f1 f2 s, (length s <= f1)%nat -> (length s <= f2)%nat -> runes f1 s = runes f2 s.
Proof.
  intros f1; induction f1 as [|f1 IH]; intros f2 s H1 H2.
  - destruct s; [|cbn [length] in H1; lia]. destruct f2; reflexivity.
  - destruct s as [|b s]; [destruct f2; reflexivity|].
    destruct f2 as [|f2]; [cbn [length] in H2; lia|].
    cbn [runes]. destruct (decode_rune (b :: s)) as [r n]. f_equal.
    apply IH; rewrite skipn_length; cbn [length] in *; lia.
Qed.

Theorem runes_fuel : forall s k, runes (length s) s = runes (length s + k) s.
Proof. intros s k. apply runes_fuel_irrelevant; lia. Qed.

(* with enough fuel the whole string is consumed: runes is the unfolding  s = [] -> [] | decode one rune, recurse *)
Theorem runes_unfold : forall b s,
  runes (length (b :: s)) (b :: s)
  = fst (decode_rune (b :: s))
    :: runes (length (skipn (Nat.max (snd (decode_rune (b :: s))) 1) (b :: s)))
             (skipn (Nat.max (snd (decode_rune (b :: s))) 1) (b :: s)).
Proof.
  intros b s. cbn [length runes]. destruct (decode_rune (b :: s)) as [r n]. cbn [fst snd]. f_equal.
  apply runes_fuel_irrelevant; [|lia]. rewrite skipn_length. cbn [length]. lia.
Qed.

(* ---------------------------------------------------------------- (4b) lengths *)
Lemma pairs_length : forall l : list Z, length (flat_map (fun u => [u mod 256; u / 256]) l) = (2 * length l)%nat.
Proof. intros l; induction l as [|u l IH]; [reflexivity|]. cbn [flat_map app length]. rewrite IH. lia. Qed.

Lemma utf16_units_length : forall r, (1 <= length (utf16_units r) <= 2)%nat /\ (length (utf16_units r) = 2%nat -> 65536 <= r).
Proof.
  intros r. unfold utf16_units.
  destruct (((0 <=? r) && (r <? 55296)) || ((57344 <=? r) && (r <? 65536))); [cbn [length]; split; [lia|discriminate]|].
  destruct ((65536 <=? r) && (r <=? 1114111)) eqn:E; cbn [length]; (split; [lia|]); [|discriminate].
  bools. intros; assumption.
Qed.

(* one UTF-16 unit per byte consumed, at most (two units only come from four-byte sequences) *)
Lemma units_le_bytes : forall f s, (length (flat_map utf16_units (runes f s)) <= length s)%nat.
Proof.
  intros f; induction f as [|f IH]; intros s; [cbn [runes flat_map length]; lia|].
  destruct s as [|b s]; [cbn [runes flat_map length]; lia|].
  cbn [runes]. destruct (decode_rune (b :: s)) as [r n] eqn:D. cbn [flat_map]. rewrite app_length.
  apply decode_rune_width in D. destruct D as (D1 & D2 & D3 & D4).
  specialize (D3 ltac:(discriminate)).
  specialize (IH (skipn (Nat.max n 1) (b :: s))). rewrite skipn_length in IH.
  destruct (utf16_units_length r) as [[U1 U2] U3].
  destruct (Nat.eq_dec (length (utf16_units r)) 2) as [E2|N2].
  - specialize (D4 (U3 E2)). lia.
  - lia.
Qed.

Lemma runes_le_bytes : forall f s, (length (runes f s) <= length s)%nat.
Proof.
  intros f; induction f as [|f IH]; intros s; [cbn [runes length]; lia|].
  destruct s as [|b s]; [cbn [runes length]; lia|].
  cbn [runes]. destruct (decode_rune (b :: s)) as [r n]. cbn [length].
  specialize (IH (skipn (Nat.max n 1) (b :: s))). rewrite skipn_length in IH. cbn [length] in IH. lia.
Qed.

Theorem encodePassword_length_even : forall s, Nat.Even (length (encodePassword s)).
Proof. intros s. unfold encodePassword. rewrite pairs_length. eexists; reflexivity. Qed.

Theorem encodePassword_length_units : forall s,
  length (encodePassword s) = (2 * length (flat_map utf16_units (runes (length s) s)))%nat.
Proof. intros s. unfold encodePassword. apply pairs_length. Qed.

(* the sharp bound: two bytes of output per byte of input at most *)
Theorem encodePassword_length_le2 : forall s, (length (encodePassword s) <= 2 * length s)%nat.
Proof. intros s. rewrite encodePassword_length_units. pose proof (units_le_bytes (length s) s). lia. Qed.

(* the bound asked for *)
Theorem encodePassword_length_le4 : forall s, (length (encodePassword s) <= 4 * length s)%nat.
Proof. intros s. pose proof (encodePassword_length_le2 s). lia. Qed.

(* b := make([]byte, len(a)*2); for i, r := range a { binary.LittleEndian.PutUint16(b[i*2:], r) }:
   the slice b[i*2:] is in range and has the two bytes PutUint16 writes (it panics on a shorter slice) *)
Theorem put16_slices_ok : forall (a : list Z) (b : bytes) i, length b = (2 * length a)%nat -> 0 <= i < Z.of_nat (length a) ->
  exists t, sl b (i * 2) (Z.of_nat (length b)) = Some t /\ (2 <= length t)%nat.
Proof.
  intros a b i L Hi. unfold sl.
  destruct (Z.leb_spec 0 (i * 2)); try lia.
  destruct (Z.leb_spec (i * 2) (Z.of_nat (length b))); try lia.
  destruct (Z.leb_spec (Z.of_nat (length b)) (Z.of_nat (length b))); try lia.
  cbn [andb]. eexists; split; [reflexivity|]. rewrite firstn_length, skipn_length. lia.
Qed.

(* ASCII: exactly two bytes per byte (the bound 2 * length s is attained) *)
Lemma encodePassword_ascii_sharp :
  length (encodePassword [112;97;115;115]) = 8%nat /\
  (* 4-byte sequences give 4 bytes, invalid bytes give U+FFFD each: F0 9F 98 80 = U+1F600; FF FF *)
  encodePassword [240;159;152;128] = [61;216;0;222] /\ encodePassword [255;255] = [253;255;253;255] /\
  encodePassword [] = [].
Proof. vm_compute. repeat apply conj; reflexivity. Qed.

Check runes_fuel.
Check runes_fuel_irrelevant.
Check runes_unfold.
Check encodePassword_length_even.
Check encodePassword_length_le4.
Check encodePassword_length_le2.
Check decode_rune_width.
Check put16_slices_ok.

Print Assumptions runes_fuel.
Print Assumptions runes_fuel_irrelevant.
Print Assumptions runes_unfold.
Print Assumptions encodePassword_length_even.
Print Assumptions encodePassword_length_le4.
Print Assumptions encodePassword_length_le2.
Print Assumptions decode_rune_width.
Print Assumptions put16_slices_ok.
Print Assumptions encodePassword_ascii_sharp.
