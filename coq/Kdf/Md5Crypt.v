(* md5/md5crypt/md5crypt.go: Encrypt, literally.  H = MD5 of the concatenation of everything written. *)
Require Import GC.Base.Bytes GC.Kdf.KdfBase.

Section M.
Variable H : bytes -> bytes.
Variable permFinal : bytes.

(* for i := len(password); i > 0; i -= md5.Size { if i > 16 { h.Write(d) } else { h.Write(d[:i]) } } *)
Fixpoint loop1 (fuel : nat) (d : bytes) (i : Z) (acc : bytes) : option bytes :=
  match fuel with
  | O => if i <=? 0 then Some acc else None
  | S f => if i <=? 0 then Some acc
           else if 16 <? i then loop1 f d (i - 16) (acc ++ d)
           else do x <- sl d 0 i; loop1 f d (i - 16) (acc ++ x)
  end.

(* for i := len(password); i > 0; i >>= 1 { if i&1 != 0 { h.Write([]byte{0}) } else { h.Write(password[:1]) } } *)
Fixpoint loop2 (fuel : nat) (pw : bytes) (i : Z) (acc : bytes) : option bytes :=
  match fuel with
  | O => if i <=? 0 then Some acc else None
  | S f => if i <=? 0 then Some acc
           else if negb (Z.land i 1 =? 0) then loop2 f pw (Z.shiftr i 1) (acc ++ [0])
           else do x <- sl pw 0 1; loop2 f pw (Z.shiftr i 1) (acc ++ x)
  end.

Definition round (pw salt d : bytes) (i : Z) : bytes :=
  H ((if negb (Z.land i 1 =? 0) then pw else d)
     ++ (if negb (i mod 3 =? 0) then salt else [])
     ++ (if negb (i mod 7 =? 0) then pw else [])
     ++ (if negb (Z.land i 1 =? 0) then d else pw)).

Fixpoint rounds (n : nat) (pw salt d : bytes) (i : Z) : bytes :=
  match n with O => d | S n' => rounds n' pw salt (round pw salt d i) (i + 1) end.

Definition Encrypt (pw salt prefix : bytes) : option bytes :=
  let h0 := pw ++ prefix ++ salt in
  let d := H (pw ++ salt ++ pw) in
  do h1 <- loop1 (S (length pw)) d (lenZ pw) h0;
  do h2 <- loop2 (S (length pw)) pw (lenZ pw) h1;
  permute (rounds 1000 pw salt (H h2) 0) permFinal.

(* ---- specification, from the published algorithm (PHK MD5-crypt) ---- *)
(* the bits of n, least significant first, down to the highest set bit *)
Fixpoint bits_lsb (fuel : nat) (n : Z) : list bool :=
  match fuel with
  | O => []
  | S f => if n <=? 0 then [] else negb (Z.land n 1 =? 0) :: bits_lsb f (Z.shiftr n 1)
  end.
Definition spec_Encrypt (pw salt prefix : bytes) : option bytes :=
  let alt := H (pw ++ salt ++ pw) in
  let ctx := pw ++ prefix ++ salt
             ++ take_cyclic alt (length pw)
             ++ flat_map (fun b : bool => if b then [0] else firstn 1 pw) (bits_lsb (S (length pw)) (lenZ pw)) in
  permute (rounds 1000 pw salt (H ctx) 0) permFinal.
End M.
