(* init_des in Gallina: the combined tables of the table-driven crypt(3) DES (IE3264, CF6464, SPE, PC1ROT / PC2ROT)
   GENERATED from the FIPS 46-3 tables of Kdf/DesSpec.v, the theorem that the COMMITTED tables (Kdf/DesTables.v) are
   exactly the generated ones, and the generic linearity lemma: a 4-bit-chunked table lookup (permute_tab) over a
   generated table is the bit selection that generated it.

   Word layout used by the table code ("C_block" of Truscott's crypt.c, big-endian bytes in a uint64): a 48-bit
   quantity (E output, subkey) is held in a 64-bit word as eight bytes, byte g (g = 0 is the MOST significant
   byte) carrying the 6-bit group g in its top six bits, and WITHIN a byte the FIRST (leftmost, FIPS-lowest-numbered)
   bit of the group is the LEAST significant:  FIPS bit e = 6g + j + 1 (0 <= j < 6)  <->  word bit 58 - 8g + j.
   The two low bits of each byte are spare (the key schedule keeps the 8 C/D bits that PC-2 drops there).     *)
Require Import GC.Base.Bytes GC.Kdf.DesSpec GC.Kdf.DesSpecLemmas GC.Kdf.DesCrypt GC.Kdf.DesTables.

(* ---------------------------------------------------------------------------------------------------- *)
(* 1. Selections (lists of source bit indices, least significant output bit first) from the standard tables *)

Definition IPsel := fsel 64 IP.
Definition FPsel := fsel 64 FP.
Definition Esel := fsel 32 E.
Definition Psel := fsel 32 P.
Definition PC1sel := fsel 64 PC1.
Definition PC2sel := fsel 56 PC2.

(* "C index" i = 8 * byte + bit (byte 0 first, bit 0 least significant)  <->  bit of the uint64 *)
Definition wpos (i : Z) : Z := 8 * (7 - i / 8) + i mod 8.

(* 48 bits -> word *)
Definition Wsel : list Z :=
  map (fun p => let j := p mod 8 in if j <? 2 then -1 else 47 - (6 * (7 - p / 8) + (j - 2))) (zseq 64).
Definition W (x : Z) : Z := zsel Wsel x.
(* a 32-bit half, E-expanded, in word layout: the representation of L and R between rounds *)
Definition Erepsel : list Z := comp Wsel Esel.
Definition Erep (x : Z) : Z := zsel Erepsel x.

(* crypt.c's 64-entry PC2: each byte = two spare slots, filled (first four bytes) with the eight C/D bits that PC-2
   does not select, in increasing order, then six PC-2 entries *)
Definition pc2_unused : list Z := filter (fun k => negb (existsb (Z.eqb k) PC2)) (map (Z.add 1) (zseq 56)).
Definition PC2x : list Z :=
  map (fun i => let g := i / 8 in let j := i mod 8 in
                if j <? 2 then nth (Z.to_nat (2 * g + j)) pc2_unused 0 else nth (Z.to_nat (6 * g + j - 2)) PC2 0) (zseq 64).
(* the 56 bits C D -> word (all 56 of them), and back *)
Definition W56sel : list Z := map (fun p => let k := nth (Z.to_nat (wpos p)) PC2x 0 in if k =? 0 then -1 else 56 - k) (zseq 64).
Fixpoint index_of (k : Z) (l : list Z) : Z := match l with [] => 0 | h :: r => if h =? k then 0 else 1 + index_of k r end.
Definition W56inv : list Z := map (fun q => wpos (index_of (56 - q) PC2x)) (zseq 56).
(* both 28-bit halves rotated left by s *)
Definition rotsel (s : Z) : list Z :=
  map (fun q => let k := 56 - q in
                let k' := if k <=? 28 then (k - 1 + s) mod 28 + 1 else 28 + (k - 29 + s) mod 28 + 1 in 56 - k') (zseq 56).

(* PC1ROT: key -> PC-1 -> rotate -> word;   PC2ROT[s]: word -> C D -> rotate by s -> word *)
Definition pc1rot_sel (s : Z) : list Z := comp W56sel (comp (rotsel s) PC1sel).
Definition pc2rot_sel (s : Z) : list Z := comp W56sel (comp (rotsel s) W56inv).

(* IE3264: the 32 even-numbered (resp. odd-numbered) bits of the input, compacted into 32 bits by the caller
   (bit 64 - k of the input lands on bit 64 - k if k > 32 and on bit 33 - k otherwise, k even; same table for the odd
   bits after a shift by one), -> IP -> E -> word *)
Definition ie_sel : list Z :=
  map (fun q => if q <? 0 then -1 else
                let k := nth (Z.to_nat (31 - q)) IP 0 in if 32 <? k then 64 - k else 33 - k) Erepsel.

(* CF6464: the caller compacts the middle four bits of every 6-bit group of l and r into a 64-bit word (crypt.c's
   CIFP order); pre-output bit m (1..64, R16 first) sits at C index 8 (4 half + nb mod 4) + 4 (nb / 4) + b with
   t = (m - 1) mod 32, nb = t / 4, b = t mod 4;  then IP^-1 *)
Definition cf_src (m : Z) : Z :=
  let half := (m - 1) / 32 in let t := (m - 1) mod 32 in let nb := t / 4 in let b := t mod 4 in
  wpos (8 * (4 * half + nb mod 4) + 4 * (nb / 4) + b).
Definition cf_sel : list Z := map (fun z => cf_src (nth (Z.to_nat (63 - z)) FP 0)) (zseq 64).

(* SPE: S-box g on the bit-reversed index, moved to its nibble, then P, then E, in word layout *)
Definition rev6sel : list Z := [5;4;3;2;1;0].
Definition EPsel : list Z := comp Erepsel Psel.
Definition gen_spe : list (list Z) :=
  map (fun g => map (fun v => zsel EPsel (Z.shiftl (sbox g (zsel rev6sel v)) (28 - 4 * g))) (zseq 64)) (zseq 8).

(* a chunked permutation table: row r, entry n = image of the nibble n placed at bits 4r .. 4r+3 *)
Definition gen_table (s : list Z) (rows : nat) : list (list Z) :=
  map (fun r => map (fun n => zsel s (Z.shiftl n (4 * r))) (zseq 16)) (zseq rows).

Fixpoint pairs (l : list Z) : list (Z * Z) :=
  match l with a :: b :: r => (a, b) :: pairs r | _ => [] end.

Definition pcx_sels : list (list Z * list Z) :=
  match pairs shifts with
  | [] => []
  | (s1, s2) :: rest => (pc1rot_sel s1, pc2rot_sel s2) :: map (fun '(a, b) => (pc2rot_sel a, pc2rot_sel b)) rest
  end.
Definition gen_pcx : list (list (list Z) * list (list Z)) :=
  map (fun '(a, b) => (gen_table a 16, gen_table b 16)) pcx_sels.

(* ---------------------------------------------------------------------------------------------------- *)
(* 2. The committed tables are the generated ones *)
Theorem des_tables_generated :
  m_des_ie3264 = gen_table ie_sel 8 /\
  m_des_cf6464 = gen_table cf_sel 16 /\
  m_des_spe = gen_spe /\
  m_des_pcxRot = gen_pcx.
Proof. vm_compute. repeat split; reflexivity. Qed.

(* crypt.c's literal PC2 table, for the record *)
Example PC2x_is_crypt_c_PC2 :
  PC2x = [ 9;18; 14;17;11;24;1;5;   22;25; 3;28;15;6;21;10;   35;38; 23;19;12;4;26;8;   43;54; 16;7;27;20;13;2;
           0;0; 41;52;31;37;47;55;   0;0; 30;40;51;45;33;48;   0;0; 44;49;39;56;34;53;   0;0; 46;42;50;36;29;32].
Proof. vm_compute. reflexivity. Qed.

(* ---------------------------------------------------------------------------------------------------- *)
(* 3. Generic linearity: lookup over a generated table = the generating selection *)
Lemma testbit_ones : forall n i, 0 <= n -> Z.testbit (Z.ones n) i = (0 <=? i) && (i <? n).
Proof.
  intros n i Hn. destruct (Z_lt_dec i 0).
  - rewrite Z.testbit_neg_r by lia. replace (0 <=? i) with false by (symmetry; apply Z.leb_gt; lia). reflexivity.
  - replace (0 <=? i) with true by (symmetry; apply Z.leb_le; lia). simpl.
    destruct (Z_lt_dec i n).
    + rewrite Z.ones_spec_low by lia. symmetry. apply Z.ltb_lt. lia.
    + rewrite Z.ones_spec_high by lia. symmetry. apply Z.ltb_ge. lia.
Qed.

Lemma nthz_map_zseq : forall (fn : Z -> Z) n i, fn 0 = 0 -> 0 <= i < Z.of_nat n -> nthz (map fn (zseq n)) i = fn i.
Proof.
  intros fn n i H0 Hi. unfold nthz. rewrite <- H0 at 1. rewrite map_nth, nth_zseq by lia. f_equal. lia.
Qed.

Lemma land15_range : forall c, 0 <= Z.land c 15 < 16.
Proof. intros. change 15 with (Z.ones 4). rewrite Z.land_ones by lia. apply Z.mod_pos_bound. lia. Qed.

Lemma nibble_join : forall c k m, 0 <= k -> 0 <= m ->
  Z.lor (Z.shiftl (Z.land c 15) (4 * k)) (Z.shiftl (Z.land (Z.shiftr c 4) (Z.ones (4 * m))) (4 * (k + 1)))
  = Z.shiftl (Z.land c (Z.ones (4 * (m + 1)))) (4 * k).
Proof.
  intros c k m Hk Hm. apply Z.bits_inj'. intros t Ht.
  rewrite Z.lor_spec, !Z.shiftl_spec by lia.
  replace (t - 4 * (k + 1)) with (t - 4 * k - 4) by lia.
  remember (t - 4 * k) as d eqn:Ed. clear Ed.
  remember (4 * m) as m4 eqn:Em. replace (4 * (m + 1)) with (m4 + 4) by lia.
  assert (Hm4 : 0 <= m4) by lia. clear Em.
  destruct (Z_lt_dec d 0) as [Hd|Hd].
  - rewrite !Z.testbit_neg_r by lia. reflexivity.
  - rewrite !Z.land_spec. change 15 with (Z.ones 4). rewrite !testbit_ones by lia.
    destruct (Z_lt_dec d 4) as [Hd4|Hd4].
    + rewrite (Z.testbit_neg_r _ (d - 4)) by lia.
      replace (0 <=? d) with true by (symmetry; apply Z.leb_le; lia).
      replace (d <? 4) with true by (symmetry; apply Z.ltb_lt; lia).
      replace (d <? m4 + 4) with true by (symmetry; apply Z.ltb_lt; lia).
      rewrite andb_false_l, orb_false_r. reflexivity.
    + replace (d <? 4) with false by (symmetry; apply Z.ltb_ge; lia).
      rewrite !andb_false_r, orb_false_l.
      rewrite Z.shiftr_spec by lia. replace (d - 4 + 4) with d by lia.
      replace (0 <=? d - 4) with true by (symmetry; apply Z.leb_le; lia).
      replace (0 <=? d) with true by (symmetry; apply Z.leb_le; lia).
      f_equal. f_equal.
      destruct (Z_lt_dec d (m4 + 4)).
      * transitivity true; [apply Z.ltb_lt; lia | symmetry; apply Z.ltb_lt; lia].
      * transitivity false; [apply Z.ltb_ge; lia | symmetry; apply Z.ltb_ge; lia].
Qed.

Lemma permute_tab_cons : forall r rest c v,
  permute_tab (r :: rest) c v = permute_tab rest (Z.shiftr c 4) (Z.lor v (nthz r (Z.land c 15))).
Proof. reflexivity. Qed.

Lemma permute_gen_aux : forall s rows k c v,
  permute_tab (map (fun r => map (fun n => zsel s (Z.shiftl n (4 * r))) (zseq 16)) (map Z.of_nat (seq k rows))) c v
  = Z.lor v (zsel s (Z.shiftl (Z.land c (Z.ones (4 * Z.of_nat rows))) (4 * Z.of_nat k))).
Proof.
  intros s. induction rows as [|m IH]; intros k c v.
  - change (seq k 0) with (@nil nat). change (Z.ones (4 * Z.of_nat 0)) with 0. cbv [map permute_tab]. rewrite Z.land_0_r, Z.shiftl_0_l, zsel_0, Z.lor_0_r. reflexivity.
  - change (seq k (S m)) with (k :: seq (S k) m). rewrite !map_cons. rewrite permute_tab_cons.
    rewrite IH. rewrite nthz_map_zseq; [| rewrite Z.shiftl_0_l; apply zsel_0 | apply land15_range].
    rewrite <- Z.lor_assoc, <- zsel_lor. f_equal. f_equal.
    replace (Z.of_nat (S k)) with (Z.of_nat k + 1) by lia.
    replace (Z.of_nat (S m)) with (Z.of_nat m + 1) by lia.
    apply nibble_join; lia.
Qed.

(* THE GENERIC LINEARITY LEMMA (for every integer c; only the low 4*rows bits matter) *)
Theorem permute_gen : forall s rows c,
  permute_tab (gen_table s rows) c 0 = zsel s (Z.land c (Z.ones (4 * Z.of_nat rows))).
Proof.
  intros. unfold gen_table, zseq at 2. rewrite permute_gen_aux. simpl Z.of_nat at 2.
  rewrite Z.mul_0_r, Z.shiftl_0_r, Z.lor_0_l. reflexivity.
Qed.

Corollary permute_gen_small : forall s rows c, 0 <= c < 2 ^ (4 * Z.of_nat rows) ->
  permute_tab (gen_table s rows) c 0 = zsel s c.
Proof. intros. rewrite permute_gen, Z.land_ones by lia. rewrite Z.mod_small by lia. reflexivity. Qed.

Lemma orlin_permute_gen : forall s rows F, orlin F -> orlin (fun x => permute_tab (gen_table s rows) (F x) 0).
Proof.
  intros s rows F HF.
  apply orlin_ext with (F := fun x => zsel s (Z.land (F x) (Z.ones (4 * Z.of_nat rows)))).
  - intros. symmetry. apply permute_gen.
  - apply orlin_zsel. apply orlin_land. exact HF.
Qed.

(* ---------------------------------------------------------------------------------------------------- *)
(* 4. Per-table characterisations of the COMMITTED tables *)
Lemma ie3264_char : forall c, 0 <= c < 2 ^ 32 -> permute816 m_des_ie3264 c = zsel ie_sel c.
Proof.
  intros. unfold permute816. destruct des_tables_generated as (-> & _). apply (permute_gen_small ie_sel 8). exact H.
Qed.

Lemma cf6464_char : forall c, 0 <= c < 2 ^ 64 -> permute1616 m_des_cf6464 c = zsel cf_sel c.
Proof.
  intros. unfold permute1616. destruct des_tables_generated as (_ & -> & _). apply (permute_gen_small cf_sel 16). exact H.
Qed.

Definition pcx_ok (t : list (list Z) * list (list Z)) (s : list Z * list Z) : Prop :=
  forall c, 0 <= c < 2 ^ 64 ->
    permute1616 (fst t) c = zsel (fst s) c /\ permute1616 (snd t) c = zsel (snd s) c.

Lemma pcx_char : Forall2 pcx_ok m_des_pcxRot pcx_sels.
Proof.
  destruct des_tables_generated as (_ & _ & _ & ->). unfold gen_pcx.
  induction pcx_sels as [|[a b] l IH]; simpl map; constructor; [|exact IH].
  intros c Hc. unfold permute1616. simpl fst. simpl snd.
  split; apply (permute_gen_small _ 16); exact Hc.
Qed.

(* SPE: entry v of row g is E(P(S_g(bit-reversed v) in nibble g)) in word layout *)
Lemma spe_char : forall g v, 0 <= g < 8 -> 0 <= v < 64 ->
  nthz (nth (Z.to_nat g) m_des_spe []) v = Erep (fperm 32 P (Z.shiftl (sbox g (zsel rev6sel v)) (28 - 4 * g))).
Proof.
  intros g v Hg Hv.
  assert (C : forallb (fun g => forallb (fun v =>
             nthz (nth (Z.to_nat g) m_des_spe []) v =? Erep (fperm 32 P (Z.shiftl (sbox g (zsel rev6sel v)) (28 - 4 * g))))
             (zseq 64)) (zseq 8) = true) by (vm_compute; reflexivity).
  apply Z.eqb_eq.
  apply (forall_zseq 64 _ (forall_zseq 8 _ C g Hg) v Hv).
Qed.

(* the rotations of the specification are the selections used to generate the tables *)
Lemma orlin_rotl28 : forall s F, 0 <= s -> orlin F -> orlin (fun x => rotl28 s (F x)).
Proof.
  intros s F Hs HF. unfold rotl28. apply orlin_lor.
  - apply (orlin_modpow2 (fun x => Z.shiftl (F x) s) 28); [lia|]. apply orlin_shiftl. exact HF.
  - apply orlin_shiftr. exact HF.
Qed.

Lemma orlin_rotCD : forall s, 0 <= s -> orlin (rotCD s).
Proof.
  intros s Hs. unfold rotCD. apply orlin_lor.
  - apply (orlin_shiftl (fun cd => rotl28 s (Z.shiftr cd 28))). apply orlin_rotl28; [lia|]. apply orlin_shiftr. apply orlin_id.
  - apply orlin_rotl28; [lia|]. apply (orlin_modpow2 (fun x => x) 28); [lia|]. apply orlin_id.
Qed.

Lemma rotCD_sel : forall s cd, s = 1 \/ s = 2 -> 0 <= cd < 2 ^ 56 -> rotCD s cd = zsel (rotsel s) cd.
Proof.
  intros s cd Hs Hcd.
  apply (orlin_basis_check 56 (rotCD s) (fun x => zsel (rotsel s) x)).
  - apply orlin_rotCD. lia.
  - apply orlin_zsel. apply orlin_id.
  - destruct Hs as [-> | ->]; vm_compute; reflexivity.
  - exact Hcd.
Qed.

Check des_tables_generated.
Check permute_gen.
Check ie3264_char.
Check cf6464_char.
Check pcx_char.
Check spe_char.
Check rotCD_sel.
Print Assumptions des_tables_generated.
Print Assumptions permute_gen.
Print Assumptions ie3264_char.
Print Assumptions cf6464_char.
Print Assumptions pcx_char.
Print Assumptions spe_char.
Print Assumptions rotCD_sel.
