#!/bin/sh
# Run once after a fresh restore, offline: build the harness, regenerate coq/Generated from /repo, full Coq build.
set -e
cd "$(dirname "$0")/.."
export GOFLAGS=-mod=mod GOPROXY=off GOSUMDB=off GOTOOLCHAIN=local
mkdir -p build coq/Generated evidence replays
cp /repo/go.sum harness/go.sum 2>/dev/null || true
(cd harness && go build -tags verif -o ../build/harness ./cmd/harness)
./build/harness gen -out coq/Generated -repo /repo
(cd coq && coq_makefile -f _CoqProject -o Makefile >/dev/null && timeout 3400 make -j16)
echo setup-ok
