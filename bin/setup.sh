#!/bin/sh
# Run once after a fresh restore, offline: build the harness, regenerate coq/Generated from /repo, full Coq build.
set -e
cd "$(dirname "$0")/.."
export GOFLAGS=-mod=mod GOPROXY=off GOSUMDB=off GOTOOLCHAIN=local
mkdir -p build coq/Generated evidence replays
cp /repo/go.sum harness/go.sum 2>/dev/null || true
(cd harness && go build -tags verif -o ../build/harness ./cmd/harness)
./build/harness gen -out coq/Generated -repo /repo
(cd coq && coq_makefile -f _CoqProject -o Makefile >/dev/null && timeout 3400 make -j16)
# extracted KDF models + OCaml driver (C03/C04)
mkdir -p build/extract
(cd build/extract && timeout 600 coqc -Q ../../coq GC ../../coq/Extract/Extract.v && cp ../../ocaml/driver.ml . && ocamlfind ocamlopt -O2 kdf.mli kdf.ml driver.ml -o kdfdriver 2>/dev/null; test -x kdfdriver)
echo setup-ok
