# Per-property configuration of bin/check.
TRUSTED_COMMON = [
    'Coq 8.16.1 kernel (coqc); vm_compute is used in finite sweeps, tie lemmas and case evaluation; native_compute is not used',
    'no Axiom/Parameter/Conjecture/Admitted in the development (grep gate on every run; coqchk -o in the thorough tier)',
    'the generator (harness gen: reflect + hooks under build tag verif, go/ast) that rewrites coq/Generated/*.v from /repo on every run',
    'the correspondence harness (Go, /verif/harness) and its generators; the model is evaluated by coqc (vm_compute) on the cases the implementation ran',
]

PROPS = {
    'C07': {
        'property_files': ['Properties/C07.v'],
        'targets': ['Properties/C07.vo', 'Dispatch/DispatchCases.vo'],
        'trusted': ['sync.Map Load/Store linearizability (modelled as an association list, newest first)',
                    'modelled: crypt.go Check/RegisterHash; generated: the registrations reached from the ten init functions'],
        'assumptions': ['handlers are identified by the function value stored; reflect.Value.Pointer equality identifies the scheme package of a registration'],
        'explanation': 'Theorems over all strings and all registration histories on a model of crypt.go; tie: generated registration list = documented list (Tie_regs), and crypt.Check vs the model on exhaustive small strings x histories with recording handlers.',
    },
}
