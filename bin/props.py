# Per-property configuration of bin/check.
TRUSTED_COMMON = [
    'Coq 8.16.1 kernel (coqc); vm_compute is used in finite sweeps, tie lemmas and case evaluation; native_compute is not used',
    'no Axiom/Parameter/Conjecture/Admitted in the development (grep gate on every run; coqchk -o in the thorough tier)',
    'the generator (harness gen: reflect + hooks under build tag verif, go/ast) that rewrites coq/Generated/*.v from /repo on every run',
    'the correspondence harness (Go, /verif/harness) and its generators; the model is evaluated by coqc (vm_compute) on the cases the implementation ran',
]

PROPS = {
    'C07': {
        'property_files': ['Properties/C07.v'],
        'targets': ['Properties/C07.vo', 'Dispatch/DispatchCases.vo'],
        'trusted': ['sync.Map Load/Store linearizability (modelled as an association list, newest first)',
                    'modelled: crypt.go Check/RegisterHash; generated: the registrations reached from the ten init functions'],
        'assumptions': ['handlers are identified by the function value stored; reflect.Value.Pointer equality identifies the scheme package of a registration'],
        'explanation': 'Theorems over all strings and all registration histories on a model of crypt.go; tie: generated registration list = documented list (Tie_regs), and crypt.Check vs the model on exhaustive small strings x histories with recording handlers.',
    },
    'C11': {
        'property_files': ['Properties/C11.v'],
        'targets': ['Properties/C11.vo', 'Parse/ParseCases.vo'],
        'trusted': ['Go channel/goroutine runtime: represented by the produced/consumed token discipline (C11_drained); goroutine exit is additionally observed with runtime.NumGoroutine',
                    'modelled: hash/parse lex.go (literal state machine + structural lexer, proved equal), parse.go, node.go spans'],
        'assumptions': ['strings.IndexAny/HasPrefix behave as index_any/has_prefix of Base/Bytes.v'],
        'explanation': 'Theorems for all byte strings: the literal lexer state machine terminates within length+3 steps and equals the structural lexer; Parse equals an independent split-based reference parser (positions included); fails exactly on an empty/unterminated identifier; render(tree)+<=1 delimiter = input; spans; grouping; token discipline. Tie: VerifLex token streams and Parse trees vs the model on all strings <= 6 over {$ , _ = a} and random strings; property oracle on the implementation up to length 8 (quick) / 10 (thorough); goroutine count.',
    },
    'C16': {
        'property_files': ['Properties/C16.v'],
        'targets': ['Properties/C16.vo', 'B64/B64Cases.vo'],
        'trusted': ['modelled: hash/base64le one-shot API (NewEncoding decode map, Encode, EncodedLen, Decode with assemble64/assemble32 fast paths and decodeQuantum, DecodedLen); Go uint shifts/masks kept literally',
                    'alphabets of hash.LittleEndianEncoding and bcrypt.Encoding are read off their behaviour by the generator and tied by Tie_consts'],
        'assumptions': ['documented preconditions of NewEncoding/WithPadding (64 distinct symbols, no CR/LF, padding not in the alphabet) are hypotheses (enc_ok/enc_wf)',
                        'strconv.IntSize >= 64 (amd64): the 8-symbol fast path is enabled'],
        'explanation': 'Theorems for every byte string / text and every encoding: Encode = bit-level definition; EncodedLen; Decode inverts Encode also with CR/LF interspersed; fast paths = quantum path; no panic; an accepted text re-encodes to itself (strict: exactly; lenient: up to unused bits); corrupt offset in range and exact for a foreign byte. Tie: EncodeToString/DecodeString (bytes and corrupt offset) vs the model on exhaustive 1-/2-byte inputs, sampled 3-byte groups, all short texts over a class alphabet, random strings with single edits; alphabets by Tie_consts.',
    },
    'C10': {
        'property_files': ['Properties/C10.v'],
        'targets': ['Properties/C10.vo', 'Codec/Codec.vo', 'Codec/Class.vo'],
        'trusted': ['modelled: hash/typeinfo.go (tag grammar, embedding, shadowing, normalize), marshal.go, unmarshal.go on descriptors of Go struct types; reflect, strconv (ParseInt/ParseUint/Format* re-modelled in Codec/Strconv.v) and user (Un)MarshalText code are modelled/abstract',
                    'the descriptor of every struct type is produced by the harness from reflect (structDesc)'],
        'assumptions': ['reflect.Value.CanInterface/CanSet hold for promoted exported fields (true for every generated and shipped shape)'],
        'explanation': 'Model of the whole codec validated against Marshal/Unmarshal on generated reflect.StructOf types (wild and in-class), hand-written shapes and the shipped structs (string, value and projected error compared). Proved (C10_class): for every unambiguous layout of any size and every presentable value, for arbitrary text-(un)marshaler behaviours, Unmarshal(Marshal(v)) agrees with v field by field; plus integer text round trips for all bases/bit sizes; nine shipped layouts shown in the class by computation, all eleven tied to /repo. The class statement is also re-evaluated by the model on every generated (layout, value) of the run.',
        'level_text': 'proof: the unbounded class round-trip theorem (C10_class) is proved about the codec model for arbitrary layouts in the unambiguous class; layouts outside the class (inherent textual ambiguities, DESIGN.md 5.2; the two Sun MD5 layouts) are covered by the correspondence only; the model is tied to the implementation by the correspondence on generated struct types',
    },
    'C14': {
        'property_files': ['Properties/C14.v'],
        'targets': ['Properties/C14.vo', 'Schemes/KeyCases.vo'],
        'trusted': ['modelled: the guard prefix of the ten Key functions in source order (Schemes/Keys.v) and hashutil.Encoding.IndexAnyInvalid through the generated decode tables; the derivations after the guards are abstract',
                    'limits are the constants generated from /repo on this run (gen_limits), so a consistent change of an exported limit is not an alarm'],
        'assumptions': ['bcrypt: Eksblowfish is undefined for an empty key, so ($2$, empty password) is outside the domain (DESIGN.md 5.2)',
                        'sha1: a RandomRounds request is accepted iff the drawn value is >= MinRounds (C15 bounds the draw)'],
        'explanation': 'Theorems for all arguments: every Key rejects with the typed error of the first failing documented guard carrying the offending value, independently of the derivation (prompt), and accepts exactly the domain; alphabets exact for all 256 bytes. Tie: Key outcome (accept / typed error + value) vs the model with generated limits and vs the guard table over exported constants, on exhaustive salt lengths, every salt position x 256 bytes, cost bounds, password limits, option pools.',
    },
    'C20': {
        'property_files': ['Properties/C20.v'],
        'targets': ['Properties/C20.vo', 'Codec/Codec.vo', 'Codec/Class.vo', 'Codec/C20Test.vo'],
        'trusted': ['modelled: the same codec model as C10 (typeinfo, marshal, unmarshal, parser)',
                    'the relation respell (Codec/Respell.v) formalises the four tolerated respellings on the value texts of the two parse trees'],
        'assumptions': ['layouts outside the unambiguous class and plain integer fields with a length: tag are outside the statement (DESIGN.md 5.2)'],
        'explanation': 'C20_full_statement (accepted => canonical re-marshalling exists and the accepted string is a respelling of it) is stated for the unambiguous class and re-evaluated by the model on every accepted string of the run; proved so far: the parse tree is lossless up to one trailing delimiter, and the exact canonical spelling of every accepted integer text (leading zeros, case, sign). Tie: every edit-distance-1 string and structural splice of accepted marshallings vs the model (values or projected error); property oracle on the implementation (value texts equal up to respellings).',
        'level_text': 'proof (partial): the full statement is visible and model-tested on every run; the lossless-tree and integer-spelling parts are proved; the general inductive proof over the field loop is not finished',
        'corr_timeout': 3000,
    },
}
