# Per-property configuration of bin/check.
TRUSTED_COMMON = [
    'Coq 8.16.1 kernel (coqc); vm_compute is used in finite sweeps, tie lemmas and case evaluation; native_compute is not used',
    'no Axiom/Parameter/Conjecture/Admitted in the development (grep gate on every run; coqchk -o in the thorough tier)',
    'the generator (harness gen: reflect + hooks under build tag verif, go/ast) that rewrites coq/Generated/*.v from /repo on every run',
    'the correspondence harness (Go, /verif/harness) and its generators; the model is evaluated by coqc (vm_compute) on the cases the implementation ran',
]

PROPS = {
    'C07': {
        'property_files': ['Properties/C07.v'],
        'targets': ['Properties/C07.vo', 'Dispatch/DispatchCases.vo'],
        'trusted': ['sync.Map Load/Store linearizability (modelled as an association list, newest first)',
                    'modelled: crypt.go Check/RegisterHash; generated: the registrations reached from the ten init functions'],
        'assumptions': ['handlers are identified by the function value stored; reflect.Value.Pointer equality identifies the scheme package of a registration'],
        'explanation': 'Theorems over all strings and all registration histories on a model of crypt.go; tie: generated registration list = documented list (Tie_regs), and crypt.Check vs the model on exhaustive small strings x histories with recording handlers.',
    },
    'C11': {
        'property_files': ['Properties/C11.v'],
        'targets': ['Properties/C11.vo', 'Parse/ParseCases.vo'],
        'trusted': ['Go channel/goroutine runtime: represented by the produced/consumed token discipline (C11_drained); goroutine exit is additionally observed with runtime.NumGoroutine',
                    'modelled: hash/parse lex.go (literal state machine + structural lexer, proved equal), parse.go, node.go spans'],
        'assumptions': ['strings.IndexAny/HasPrefix behave as index_any/has_prefix of Base/Bytes.v'],
        'explanation': 'Theorems for all byte strings: the literal lexer state machine terminates within length+3 steps and equals the structural lexer; Parse equals an independent split-based reference parser (positions included); fails exactly on an empty/unterminated identifier; render(tree)+<=1 delimiter = input; spans; grouping; token discipline. Tie: VerifLex token streams and Parse trees vs the model on all strings <= 6 over {$ , _ = a} and random strings; property oracle on the implementation up to length 8 (quick) / 10 (thorough); goroutine count.',
    },
}
