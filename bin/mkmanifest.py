#!/usr/bin/env python3
"""Regenerates MANIFEST.json from bin/props.py (kept valid at all times)."""
import json, os, sys, subprocess
ROOT = os.path.dirname(os.path.dirname(os.path.abspath(__file__)))
sys.path.insert(0, os.path.join(ROOT, 'bin'))
from props import PROPS
ids = [json.loads(l)['id'] for l in open(os.path.join(ROOT, 'properties.jsonl'))]
hook_commits = subprocess.check_output(['git', '-C', '/repo', 'log', '--format=%h %s', '--grep', '^hook(verif)']).decode().strip().splitlines()
checks = []
for i in ids:
    if i not in PROPS:
        continue
    c = PROPS[i]
    checks.append({
        'property_id': i,
        'quick_cmd': 'bin/check %s --tier quick' % i,
        'thorough_cmd': 'bin/check %s --tier thorough' % i,
        'evidence_file': 'evidence/%s.json' % i,
        'replay_cmd_template': 'bin/check %s --replay {path}' % i,
        'engine': 'coq-proof+correspondence',
        'level_claimed': {'category': 'proof', 'text': c.get('level_text', c.get('explanation', '')), 'design_ref': c.get('design_ref', 'DESIGN.md §6 ' + i)},
        'level_note': c.get('level_note', '; '.join(c.get('trusted', []))),
        'technique': c.get('technique', 'machine-checked proof in Coq 8.16.1 about a Gallina model, tied to /repo by generated constants (Tie lemmas) and a model-vs-implementation correspondence evaluated with vm_compute'),
    })
na = [{'property_id': i, 'reason': 'check not yet built in this commit (work in progress; the design in DESIGN.md claims it)'} for i in ids if i not in PROPS]
m = {
    'version': 1,
    'setup_cmd': 'bin/setup.sh',
    'hooks': {
        'guard': 'verif',
        'enable': 'go build -tags verif (add-only files verif_hooks.go in the hooked packages)',
        'baseline_off_cmd': 'cd /repo && GOFLAGS=-mod=mod GOPROXY=off go test -vet=off -count=1 ./...',
        'source_commits': [l.split()[0] for l in hook_commits],
        'add_only': True,
    },
    'engines': [{'name': 'coq-proof+correspondence', 'path': 'bin/check', 'serves_properties': [c['property_id'] for c in checks],
                 'kind_free_text': 'Coq 8.16.1 development under coq/ (models, proofs, property theorems), Go generator+correspondence harness under harness/, orchestrated by bin/check'}],
    'checks': checks,
    'not_applicable': na,
    'notes': 'Every check rebuilds the harness from /repo with -tags verif, regenerates coq/Generated/*.v, re-makes the property theorems, prints their assumptions and runs the model-vs-implementation correspondence. See DESIGN.md.',
}
json.dump(m, open(os.path.join(ROOT, 'MANIFEST.json'), 'w'), indent=1)
print('checks:', len(checks), 'not_applicable:', len(na))
