#!/usr/bin/env python3
"""Line server around libxcrypt's crypt(3): each input line "<setting-hex> <password-hex>" is answered with the
hash crypt() returns (or "FAIL").  Used only as the reference oracle of C03 (search / spec validation)."""
import sys, ctypes
lib = ctypes.CDLL('libcrypt.so.1')
lib.crypt.restype = ctypes.c_char_p
lib.crypt.argtypes = [ctypes.c_char_p, ctypes.c_char_p]
for line in sys.stdin:
    parts = line.split()
    if len(parts) != 2:
        print('FAIL', flush=True); continue
    setting = bytes.fromhex(parts[0]) if parts[0] != '-' else b''
    pw = bytes.fromhex(parts[1]) if parts[1] != '-' else b''
    try:
        r = lib.crypt(pw, setting)
        out = r.decode('latin-1') if r else 'FAIL'
    except Exception:
        out = 'FAIL'
    if out.startswith('*'):
        out = 'FAIL'
    print(out, flush=True)
