#!/bin/sh
# Mutant lab (never part of a registered check): run seeded changes against the checks in parallel without touching
# /repo or /verif's build output.
#   lab.sh make N            create /root/lab/N/{verif,repo}: a copy of /verif (with its build output) whose harness
#                            module points at /root/lab/N/repo, a scratch git worktree of /repo's HEAD
#   lab.sh run N <id> <check>...   apply seeded/<id>/patch.diff in lab N, run the checks there, undo, copy results.json back
#   lab.sh drop N            remove the lab and its worktree
set -e
V=/verif
L=/root/lab/$2
case "$1" in
make)
  rm -rf "$L"; mkdir -p "$L"
  git -C /repo worktree prune
  git -C /repo worktree add --detach "$L/repo" HEAD >/dev/null 2>&1
  rsync -a --exclude .git --exclude 'build/cases' "$V/" "$L/verif/"
  sed -i "s#=> /repo#=> $L/repo#" "$L/verif/harness/go.mod"
  echo "lab $L ready"
  ;;
sync)
  rsync -a --exclude .git --exclude 'build/cases' --exclude harness/go.mod --exclude evidence --exclude replays "$V/" "$L/verif/"
  ;;
run)
  id=$3; shift 3
  rsync -a "$V/seeded/$id/" "$L/verif/seeded/$id/"
  (cd "$L/verif" && VERIF_REPO="$L/repo" python3 bin/mutant.py run "$id" "$@")
  cp "$L/verif/seeded/$id/results.json" "$V/seeded/$id/results.json"
  ;;
drop)
  git -C /repo worktree remove --force "$L/repo" 2>/dev/null || true
  rm -rf "$L"
  git -C /repo worktree prune
  ;;
esac
