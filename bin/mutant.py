#!/usr/bin/env python3
"""Seeded-change tooling (never part of a registered check).

  mutant.py confirm <worktree> <patch.diff> <demo_test.go> [pkgdir]
      In a scratch worktree of /repo: the demo passes on the clean tree; with the patch the library builds, the
      unedited test suite passes and the demo fails.  The worktree is left clean.
  mutant.py keep <id> <property> <patch.diff> <demo_test.go> <origin> <summary>
      Store /verif/seeded/<id>/{patch.diff,<demo>,meta.json}.
  mutant.py run <id> <check> [<check> ...] [--tier quick]
      git -C /repo apply seeded/<id>/patch.diff; run bin/check for each listed property; git checkout -- .
      Results are appended to seeded/<id>/results.json (exit code, VIOLATION lines, wall time).
"""
import json, os, shutil, subprocess, sys, time

ENV = dict(os.environ, GOFLAGS='-mod=mod', GOPROXY='off', GOSUMDB='off', GOTOOLCHAIN='local')
VERIF = os.path.dirname(os.path.dirname(os.path.abspath(__file__)))
REPO = os.environ.get('VERIF_REPO', '/repo')


def sh(cmd, cwd, timeout=1800):
    p = subprocess.run(cmd, cwd=cwd, env=ENV, shell=True, stdout=subprocess.PIPE, stderr=subprocess.STDOUT, text=True, timeout=timeout)
    return p.returncode, p.stdout


def clean(wt):
    sh('git checkout -- . && git clean -fdq', wt)


def confirm(wt, patch, demo, pkgdir='.', flags=''):
    clean(wt)
    dst = os.path.join(wt, pkgdir, 'zz_' + os.path.basename(demo))
    res = {}
    import re
    names = re.findall(r'^func (Test\w+)', open(demo).read(), re.M)
    runarg = "-run '^(%s)$'" % '|'.join(names)
    try:
        shutil.copy(demo, dst)
        rc, out = sh('go test -count=1 %s %s ./%s' % (flags, runarg, pkgdir), wt)
        res['demo_passes_on_clean'] = rc == 0
        os.remove(dst)
        rc, out = sh('git apply %s' % patch, wt)
        res['applies'] = rc == 0
        rc, out = sh('go build ./...', wt)
        res['builds'] = rc == 0
        rc, out = sh('go test -count=1 ./...', wt)
        res['suite_passes_with_patch'] = rc == 0
        if rc != 0:
            res['suite_output'] = out[-2000:]
        shutil.copy(demo, dst)
        rc, out = sh('go test -count=1 %s %s ./%s' % (flags, runarg, pkgdir), wt)
        res['demo_fails_with_patch'] = rc != 0
        res['demo_output'] = '\n'.join(l for l in out.splitlines() if 'FAIL' in l or 'panic' in l or 'Error' in l or '---' in l)[:1500]
    finally:
        if os.path.exists(dst):
            os.remove(dst)
        clean(wt)
    res['confirmed'] = all(res.get(k) for k in ('demo_passes_on_clean', 'applies', 'builds', 'suite_passes_with_patch', 'demo_fails_with_patch'))
    print(json.dumps(res, indent=1))
    return 0 if res['confirmed'] else 1


def keep(mid, prop, patch, demo, origin, summary):
    d = os.path.join(VERIF, 'seeded', mid)
    os.makedirs(d, exist_ok=True)
    shutil.copy(patch, os.path.join(d, 'patch.diff'))
    if demo and demo != '-':
        shutil.copy(demo, os.path.join(d, os.path.basename(demo).replace('_test.go', '_test.go.txt')))
    json.dump({'id': mid, 'property': prop, 'origin': origin, 'summary': summary,
               'apply': 'git -C /repo apply /verif/seeded/%s/patch.diff' % mid, 'undo': 'git -C /repo checkout -- .',
               'demonstration': 'copy the *_test.go.txt file to /repo as *_test.go and run go test: fails with the patch, passes without'},
              open(os.path.join(d, 'meta.json'), 'w'), indent=1)
    print('kept', d)
    return 0


def run(mid, checks, tier='quick'):
    d = os.path.join(VERIF, 'seeded', mid)
    rc, out = sh('git status --porcelain', REPO)
    if out.strip():
        print('refusing: /repo is not clean:\n' + out)
        return 2
    rc, out = sh('git apply %s/patch.diff' % d, REPO)
    if rc != 0:
        print('patch does not apply:', out)
        return 2
    results = []
    try:
        for c in checks:
            t0 = time.time()
            rc, out = sh('bin/check %s --tier %s' % (c, tier), VERIF, timeout=7200)
            lines = [l for l in out.splitlines() if l.startswith('VIOLATION') or l.startswith('KNOWN-FINDING') or l.startswith('OK ')]
            results.append({'check': c, 'tier': tier, 'exit': rc, 'lines': lines[:6], 'wall_s': round(time.time() - t0, 1)})
            print(c, 'exit', rc, lines[:3], flush=True)
    finally:
        sh('git checkout -- .', REPO)
    p = os.path.join(d, 'results.json')
    old = json.load(open(p)) if os.path.exists(p) else []
    old = [r for r in old if not any(r['check'] == n['check'] and r['tier'] == n['tier'] for n in results)]
    json.dump(old + results, open(p, 'w'), indent=1)
    return 0


def table():
    """Write seeded/RESULTS.md from the results.json files (last result per check)."""
    rows = []
    for d in sorted(os.listdir(os.path.join(VERIF, 'seeded'))):
        mp = os.path.join(VERIF, 'seeded', d, 'meta.json')
        rp = os.path.join(VERIF, 'seeded', d, 'results.json')
        if not os.path.exists(rp):
            continue
        meta = json.load(open(mp)) if os.path.exists(mp) else {'property': d, 'summary': ''}
        res = json.load(open(rp))
        cells = []
        for r in res:
            v = [l for l in r['lines'] if l.startswith('VIOLATION')]
            if r['exit'] == 0:
                cells.append('%s: not detected' % r['check'])
            elif v and v[0].endswith('no-failing-input-found'):
                cells.append('%s: VIOLATION (no-failing-input-found)' % r['check'])
            elif v:
                cells.append('%s: VIOLATION with failing input' % r['check'])
            else:
                cells.append('%s: exit %d' % (r['check'], r['exit']))
        rows.append('| `%s` | %s | %s | %s |' % (d, meta.get('property', ''), meta.get('summary', '').replace('|', '/')[:230], '; '.join(cells)))
    out = ['# Seeded changes and the checks run against them (quick tier)', '',
           'Generated by `bin/mutant.py table` from `seeded/*/results.json` (last run of each check against each change).', '',
           '| change | aimed at | what it does | result |', '|---|---|---|---|'] + rows
    open(os.path.join(VERIF, 'seeded', 'RESULTS.md'), 'w').write('\n'.join(out) + '\n')
    print('\n'.join(out))
    return 0


if __name__ == '__main__':
    a = sys.argv[1:]
    if a[0] == 'confirm':
        sys.exit(confirm(*a[1:]))
    if a[0] == 'keep':
        sys.exit(keep(*a[1:]))
    if a[0] == 'table':
        sys.exit(table())
    if a[0] == 'run':
        tier = 'quick'
        if '--tier' in a:
            i = a.index('--tier'); tier = a[i + 1]; a = a[:i] + a[i + 2:]
        sys.exit(run(a[1], a[2:], tier))
